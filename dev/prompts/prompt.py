import sys
pid, suffix, n = sys.argv[1], sys.argv[2], sys.argv[3]
prop = open('/tmp/wt/%s.txt' % pid).read()
d = '/tmp/wt/%s%s' % (pid, suffix)
print(f"""You are working in a scratch git worktree of the Go library Comcast/gots (a library for MPEG transport stream packets, PSI tables, PES headers, EBP and SCTE-35) located at {d}. Work ONLY inside {d}; never read or write /repo or /verif or any other worktree. There is no network. Run every go command with this environment: GOFLAGS=-mod=mod GOPROXY=off GOSUMDB=off GOTOOLCHAIN=local (e.g. `cd {d} && GOFLAGS=-mod=mod GOPROXY=off GOSUMDB=off GOTOOLCHAIN=local go test ./...`).

Here is a semantic property that users of the library rely on:

{prop}

Your task: write {n} distinct, independent, realistic change(s) to the library's NON-test source code, each of which BREAKS this property while (1) the library still compiles, (2) the existing test suite still passes unchanged (`go test ./...`), and (3) the breakage needs something specific to manifest - a particular interleaving or fragmentation of reads, a fault or error at a particular point, a multi-step sequence of operations, an unusual but legal input, or two cooperating sites that each look fine alone. Do NOT produce a change that ordinary use or any smoke test would expose at once (e.g. a parser that fails on every input). Aim for the kind of regression a maintainer could plausibly introduce: an off-by-one in a bound, a wrong mask or shift, a dropped or reordered statement, a forgotten reset or copy, an 'optimisation' that misses a case, swapped operands, an early return, a cached value that goes stale.

For each change k (1..{n}) deliver a directory {d}/_seed/k/ containing:
  - patch.diff : `git diff` of the library sources only, relative to HEAD (it must apply with `git apply` on a clean checkout of HEAD; do not include _seed in it)
  - a demonstration: demo_test.go (a Go test you can drop into the relevant package directory, say which) or a small main program, that FAILS (or prints a clear violation and exits non-zero) with the change applied and PASSES without it
  - README.md : what the change is, which clause of the property it breaks, exactly what is needed for it to manifest, and the commands you ran with their observed outcome for (a) the unchanged existing test suite passing WITH the change, (b) the demonstration failing WITH the change, (c) the demonstration passing WITHOUT the change.
Each patch must be independent (relative to clean HEAD, not stacked). When you are done, leave the worktree clean of library changes (`git checkout -- .` for tracked files; keep the untracked _seed directory). Do not commit anything and never use `git stash`. Verify (a), (b), (c) yourself before finishing and report a short summary of each change.""")
