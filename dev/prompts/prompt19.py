import sys
sys.path.insert(0,'/tmp/wt')
from known import KNOWN
pid, suffix, n = sys.argv[1], sys.argv[2], sys.argv[3]
prop = open('/tmp/wt/%s.txt' % pid).read()
d = '/tmp/wt/%s%s' % (pid, suffix)
known = "\n".join("  - "+k for k in KNOWN[pid])
print(f"""You are working in a scratch git worktree of the Go library Comcast/gots (a library for MPEG transport stream packets, PSI tables, PES headers, EBP and SCTE-35) located at {d}. Work ONLY inside {d}; never read or write /repo or /verif or any other worktree. There is no network. Run every go command with this environment: GOFLAGS=-mod=mod GOPROXY=off GOSUMDB=off GOTOOLCHAIN=local (e.g. `cd {d} && GOFLAGS=-mod=mod GOPROXY=off GOSUMDB=off GOTOOLCHAIN=local go test ./...`).

Here is a semantic property that users of the library rely on:

{prop}

Your task: write {n} distinct, independent, realistic changes to the library's NON-test source code, each of which BREAKS this property (the change may be in ANY non-test file of the library, including helpers in other packages that the anchored code relies on - e.g. payload/header extraction, CRC, timestamps, shared constants - not only in the obvious function) while (1) the library still compiles, (2) the existing test suite still passes unchanged (`go test ./...`), and (3) the breakage is SUBTLE: it needs something specific to manifest. Prefer, and spread your {n} changes over, these kinds of trigger:
  * only a boundary value shows it (a length that exactly fills a packet or buffer, a 13-bit value with its top bits set, a 33-bit value at the wrap, the 10th/11th entry of a bounded history, zero-length items, the last item of a list);
  * only a particular fragmentation / interleaving / ordering of reads, packets or calls shows it;
  * only the sequence AFTER an earlier error, refusal, reset or completion shows it (state left behind by a failed or finished operation);
  * two cooperating sites that each look fine alone;
  * one API style agrees with the standard and the other (function-style vs method-style, payload vs packet vs stream carrier) silently differs;
  * aliasing: a returned slice or stored pointer shares memory with caller data or with internal state, and a later call changes it.
Do NOT produce a change that ordinary use or any smoke test would expose at once. FAULT-PATH MODE: the change must be completely INVISIBLE - byte-for-byte identical results, errors and side effects - in every use where nothing goes wrong and nothing unusual is interleaved: single well-formed inputs, readers that deliver every requested byte, sinks / packet writers / predicates that always succeed, fresh objects used once for one job. It must manifest ONLY when the environment or the caller does something legal but unusual at a particular moment: a reader that returns short reads, zero-length reads, data together with an error, or an error at one particular point of the stream (and possibly delivers more afterwards); a sink, packet writer or predicate that fails at one particular call after which the caller carries on, retries or reuses the object; a caller that changes a buffer it handed in or got back between two calls; two objects of the library used alternately; an operation repeated after a failure or refusal; a truncated, damaged or foreign item at one particular position of an otherwise valid input. Where the property concerns a pure object API without I/O, the equivalent holds: the change must be invisible for every single call on a fresh object and show only after a particular HISTORY of earlier calls (successful or refused) on the same or a related object. A reviewer will run a randomized differential test with thousands of random well-formed inputs, moderate random call sequences and random read fragmentations with occasional injected errors - your change must need a coincidence such a test rarely produces by chance (the fault exactly at one position, two rare conditions at once, a precisely ordered sequence, a fault followed by a specific follow-up). Do NOT repeat these changes, which somebody else has already produced for this property (pick different code sites and mechanisms):
{known}

For each change k (1..{n}) deliver a directory {d}/_seed/k/ containing:
  - patch.diff : `git diff` of the library sources only, relative to HEAD (it must apply with `git apply` on a clean checkout of HEAD; do not include _seed in it)
  - demo_test.go : a Go test (state which package directory it belongs in; its test function names must contain the word Seed) that FAILS with the change applied and PASSES without it
  - README.md : what the change is, which clause of the property it breaks, exactly what is needed for it to manifest, and the commands you ran with their observed outcome for (a) the unchanged existing test suite passing WITH the change, (b) the demonstration failing WITH the change, (c) the demonstration passing WITHOUT the change.
Each patch must be independent (relative to clean HEAD, not stacked). When you are done, leave the worktree clean of library changes (`git checkout -- .` for tracked files; keep the untracked _seed directory). Do not commit anything. Verify (a), (b), (c) yourself before finishing and report a short summary (3-6 lines) of each change.""")
