import sys
sys.path.insert(0,'/tmp/wt')
from known import KNOWN
pid, suffix, n = sys.argv[1], sys.argv[2], sys.argv[3]
prop = open('/tmp/wt/%s.txt' % pid).read()
d = '/tmp/wt/%s%s' % (pid, suffix)
known = "\n".join("  - "+k for k in KNOWN[pid])
print(f"""You are working in a scratch git worktree of the Go library Comcast/gots (a library for MPEG transport stream packets, PSI tables, PES headers, EBP and SCTE-35) located at {d}. Work ONLY inside {d}; never read or write /repo or /verif or any other worktree. There is no network. Run every go command with this environment: GOFLAGS=-mod=mod GOPROXY=off GOSUMDB=off GOTOOLCHAIN=local (e.g. `cd {d} && GOFLAGS=-mod=mod GOPROXY=off GOSUMDB=off GOTOOLCHAIN=local go test ./...`).

Here is a semantic property that users of the library rely on:

{prop}

Your task is the OPPOSITE of breaking the property: write {n} distinct, independent, NON-TRIVIAL refactorings of the library's non-test source code that the property is anchored in (and of helpers it relies on) which PRESERVE the property above in every respect - the kind of change a maintainer makes for readability, speed or memory: rewrite a function with a different algorithm or loop structure, replace an internal data structure (a bytes.Buffer by a hand-managed slice, a slice by a map plus order list, an index by a scan or the other way round), add a correct cache or fast path, change how much is read ahead WITHIN what the interfaces allow, copy where the code shares or share where that is unobservable, reorder independent checks, merge or split helpers, change unexported names, types and struct layouts, change the TEXT of error messages (but never which exported error VALUE is returned where the statement names one). Each refactoring should touch at least 25 lines and change the code's internal behaviour visibly (different allocation pattern, different order of internal operations, different internal state) while every observable result the property speaks about stays exactly the same for EVERY input, call sequence and reader behaviour - including the corner cases (empty input, maximum sizes, errors arriving together with data, zero-length reads, repeated calls on the same object, values returned earlier staying valid). Be careful: if you are not sure a corner case is preserved, do not make that change. The library must compile and the existing test suite must pass unchanged (`go test ./...`).

For each refactoring k (1..{n}) deliver a directory {d}/_seed/k/ containing:
  - patch.diff : `git diff` of the library sources only, relative to HEAD (it must apply with `git apply` on a clean checkout of HEAD; do not include _seed in it)
  - demo_test.go : a Go test (state which package directory it belongs in; its test function names must contain the word Seed) that exercises the refactored code on several corner cases of the property and PASSES both with and without the change (it documents that behaviour is preserved)
  - README.md : what was refactored, why every clause of the property still holds (go through the clauses one by one), which corner cases you checked, and the commands you ran with their observed outcome for (a) the unchanged existing test suite passing WITH the change, (b) demo_test.go passing WITH the change, (c) demo_test.go passing WITHOUT the change.
Each patch must be independent (relative to clean HEAD, not stacked). When you are done, leave the worktree clean of library changes (`git checkout -- .` for tracked files; keep the untracked _seed directory). Do not commit anything. Never use `git stash`. Verify (a), (b), (c) yourself before finishing and report a short summary (3-6 lines) of each refactoring.""")
