import sys
sys.path.insert(0,'/tmp/wt')
from known import KNOWN
pid, suffix, n = sys.argv[1], sys.argv[2], sys.argv[3]
prop = open('/tmp/wt/%s.txt' % pid).read()
d = '/tmp/wt/%s%s' % (pid, suffix)
known = "\n".join("  - "+k for k in KNOWN[pid])
print(f"""You are working in a scratch git worktree of the Go library Comcast/gots (a library for MPEG transport stream packets, PSI tables, PES headers, EBP and SCTE-35) located at {d}. Work ONLY inside {d}; never read or write /repo or /verif or any other worktree. There is no network. Run every go command with this environment: GOFLAGS=-mod=mod GOPROXY=off GOSUMDB=off GOTOOLCHAIN=local (e.g. `cd {d} && GOFLAGS=-mod=mod GOPROXY=off GOSUMDB=off GOTOOLCHAIN=local go test ./...`).

Here is a semantic property that users of the library rely on:

{prop}

Your task: play a contributor who sends a BUG-FIX or FEATURE pull request: it genuinely fixes or improves one thing (handle a corner case, accept a slightly wider input, return a better error, support a new table/stream type, tighten validation, make an API more convenient) and in doing so silently breaks the property for a different, rarer case. Write {n} distinct, independent changes of that kind (each may touch several lines or functions, as a real PR would; describe in the README what the PR claims to fix) to the library's NON-test source code, each of which BREAKS this property (the change may be in ANY non-test file of the library, including helpers in other packages that the anchored code relies on - e.g. payload/header extraction, CRC, timestamps, shared constants - not only in the obvious function) while (1) the library still compiles, (2) the existing test suite still passes unchanged (`go test ./...`), and (3) the breakage is SUBTLE: it needs something specific to manifest. Prefer, and spread your {n} changes over, these kinds of trigger:
  * only a boundary value shows it (a length that exactly fills a packet or buffer, a 13-bit value with its top bits set, a 33-bit value at the wrap, the 10th/11th entry of a bounded history, zero-length items, the last item of a list);
  * only a particular fragmentation / interleaving / ordering of reads, packets or calls shows it;
  * only the sequence AFTER an earlier error, refusal, reset or completion shows it (state left behind by a failed or finished operation);
  * two cooperating sites that each look fine alone;
  * one API style agrees with the standard and the other (function-style vs method-style, payload vs packet vs stream carrier) silently differs;
  * aliasing: a returned slice or stored pointer shares memory with caller data or with internal state, and a later call changes it.
Do NOT produce a change that ordinary use or any smoke test would expose at once. Do NOT repeat these changes, which somebody else has already produced for this property (pick different code sites and mechanisms):
{known}

For each change k (1..{n}) deliver a directory {d}/_seed/k/ containing:
  - patch.diff : `git diff` of the library sources only, relative to HEAD (it must apply with `git apply` on a clean checkout of HEAD; do not include _seed in it)
  - demo_test.go : a Go test (state which package directory it belongs in; its test function names must contain the word Seed) that FAILS with the change applied and PASSES without it
  - README.md : what the change is, which clause of the property it breaks, exactly what is needed for it to manifest, and the commands you ran with their observed outcome for (a) the unchanged existing test suite passing WITH the change, (b) the demonstration failing WITH the change, (c) the demonstration passing WITHOUT the change.
Each patch must be independent (relative to clean HEAD, not stacked). When you are done, leave the worktree clean of library changes (`git checkout -- .` for tracked files; keep the untracked _seed directory). Do not commit anything. Verify (a), (b), (c) yourself before finishing and report a short summary (3-6 lines) of each change.""")
