import sys
sys.path.insert(0,'/tmp/wt')
from known import KNOWN
pid, suffix, n = sys.argv[1], sys.argv[2], sys.argv[3]
prop = open('/tmp/wt/%s.txt' % pid).read()
d = '/tmp/wt/%s%s' % (pid, suffix)
known = "\n".join("  - "+k for k in KNOWN[pid])
print(f"""You are working in a scratch git worktree of the Go library Comcast/gots (a library for MPEG transport stream packets, PSI tables, PES headers, EBP and SCTE-35) located at {d}. Work ONLY inside {d}; never read or write /repo or /verif or any other worktree. There is no network. Run every go command with this environment: GOFLAGS=-mod=mod GOPROXY=off GOSUMDB=off GOTOOLCHAIN=local (e.g. `cd {d} && GOFLAGS=-mod=mod GOPROXY=off GOSUMDB=off GOTOOLCHAIN=local go test ./...`).

Here is a semantic property that users of the library rely on:

{prop}

Your task: write {n} distinct, independent, realistic changes to the library's NON-test source code, each of which BREAKS this property (the change may be in ANY non-test file of the library, including helpers in other packages that the anchored code relies on - e.g. payload/header extraction, CRC, timestamps, shared constants - not only in the obvious function) while (1) the library still compiles, (2) the existing test suite still passes unchanged (`go test ./...`), and (3) the breakage is SUBTLE: it needs something specific to manifest. Prefer, and spread your {n} changes over, these kinds of trigger:
  * only a boundary value shows it (a length that exactly fills a packet or buffer, a 13-bit value with its top bits set, a 33-bit value at the wrap, the 10th/11th entry of a bounded history, zero-length items, the last item of a list);
  * only a particular fragmentation / interleaving / ordering of reads, packets or calls shows it;
  * only the sequence AFTER an earlier error, refusal, reset or completion shows it (state left behind by a failed or finished operation);
  * two cooperating sites that each look fine alone;
  * one API style agrees with the standard and the other (function-style vs method-style, payload vs packet vs stream carrier) silently differs;
  * aliasing: a returned slice or stored pointer shares memory with caller data or with internal state, and a later call changes it.
Do NOT produce a change that ordinary use or any smoke test would expose at once. REGRESSION MODE: this library recently received a series of small bug-fix commits (run `git log --oneline -40` and `git log -p -40` in your worktree; their messages start with "fix:"). Each of them repaired a defect against one of the library's guarantees. Re-introducing a VARIANT of such a defect is the most realistic way this code will break again: study the fixes that touch the code this property is anchored in (or helpers it relies on), and write changes that look like reasonable follow-up work on that code - a refactoring of the new check, a fast path that bypasses it for "simple" inputs, a boundary moved by one, the same mistake in a sibling function or sibling field that the fix did not touch, a condition re-ordered so that an early return skips the new code, a helper extracted with a slightly different comparison - and that bring back the old failure or a close cousin of it for SOME inputs or call sequences only. A plain `git revert` of a fix is not acceptable: the old demonstration input of the fix should still pass, a neighbouring one should fail. A reviewer will run a randomized differential test with thousands of random well-formed inputs, call sequences and read fragmentations against an independent reference, with a time limit per call. Do NOT repeat these changes, which somebody else has already produced for this property (pick different code sites and mechanisms):
{known}

For each change k (1..{n}) deliver a directory {d}/_seed/k/ containing:
  - patch.diff : `git diff` of the library sources only, relative to HEAD (it must apply with `git apply` on a clean checkout of HEAD; do not include _seed in it)
  - demo_test.go : a Go test (state which package directory it belongs in; its test function names must contain the word Seed) that FAILS with the change applied and PASSES without it
  - README.md : what the change is, which clause of the property it breaks, exactly what is needed for it to manifest, and the commands you ran with their observed outcome for (a) the unchanged existing test suite passing WITH the change, (b) the demonstration failing WITH the change, (c) the demonstration passing WITHOUT the change.
Each patch must be independent (relative to clean HEAD, not stacked). When you are done, leave the worktree clean of library changes (`git checkout -- .` for tracked files; keep the untracked _seed directory). Do not commit anything. Verify (a), (b), (c) yourself before finishing and report a short summary (3-6 lines) of each change.""")
