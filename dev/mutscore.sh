#!/bin/bash
# Development tool: mutation score of the quick checks on mechanical mutants.
# usage: mutscore.sh <out file> <count per file> -- then lines "file prop prop..." on stdin
out="$1"; per="$2"
while read -r file props; do
  [ -z "$file" ] && continue
  dir=/tmp/mutgen/$(echo $file | tr '/' '_')
  rm -rf $dir; python3 /verif/dev/mutgen.py $file $dir $per ${MUT_SEED:-7} >> "$out"
  for p in $dir/*.patch; do
    res=$(/verif/dev/mutcheck.sh $p $props 2>&1 | cut -c1-150)
    verdict=SURVIVED
    echo "$res" | grep -q "^KILLED" && verdict=KILLED
    echo "$res" | grep -q "DOES-NOT-COMPILE\|BASELINE-TESTS-FAIL\|PATCH-DOES-NOT-APPLY" && verdict=REJECTED
    echo "$res" | grep -q "^BROKEN" && verdict=BROKEN
    chg=$(grep '^+[^+]' $p | head -1 | cut -c1-110)
    echo "$verdict $file $(basename $p) :: $chg :: $(echo "$res" | tr '\n' ' ' | cut -c1-160)" >> "$out"
  done
done
