#!/bin/bash
# Re-runs every filed behaviour-preserving refactoring and every "freedom" patch against all
# ten quick checks; every line must say QUIET. Development tool.
cd /verif
ALL="C03 C05 C06 C07 C09 C10 C14 C16 C17 C18"
for f in refactorings/C*/patch.diff refactorings/freedoms/*.patch; do
  id=$(basename $(dirname $f)); [ "$id" = freedoms ] && id=$(basename $f)
  ./dev/mutcheck.sh /verif/$f $ALL | cut -c1-200 | while read -r line; do
    case "$line" in SURVIVED*) set -- $line; echo "QUIET $id $2";; *) echo "ALARM $id :: $line";; esac
  done
done
