#!/bin/bash
# Re-runs every filed behaviour-preserving refactoring and every "freedom" patch against the
# quick checks that exercise the code the patch touches (REFMATRIX_ALL=1: against all ten);
# every line must say QUIET. Development tool.
cd /verif
ALL="C03 C05 C06 C07 C09 C10 C14 C16 C17 C18"
for f in refactorings/C*/patch.diff refactorings/freedoms/*.patch; do
  id=$(basename $(dirname $f)); [ "$id" = freedoms ] && id=$(basename $f)
  props=""
  files=$(grep '^+++ b/' $f | sed 's|^+++ b/||')
  add() { for x in "$@"; do case " $props " in *" $x "*) ;; *) props="$props $x";; esac; done; }
  for g in $files; do
    case "$g" in
      packet/accumulator.go) add C17 C06 C14 C05 C10;;
      packet/io.go) add C16 C05 C07 C06;;
      packet/packetwriter.go) add C18 C05;;
      packet/adaptationfield*|packet/modify.go|pcr.go) add C03 C05;;
      packet/*) add C03 C05 C17 C06 C07 C14 C16 C18;;
      psi/*) add C06 C07 C14 C05;;
      scte35/*) add C09 C10 C05;;
      ebp/*|pes/*) add C05 C03;;
      *) add $ALL;;
    esac
  done
  [ -n "$REFMATRIX_ALL" ] && props="$ALL"
  ./dev/mutcheck.sh /verif/$f $props | cut -c1-200 | while read -r line; do
    case "$line" in SURVIVED*) set -- $line; echo "QUIET $id $2";; *) echo "ALARM $id :: $line";; esac
  done
done
