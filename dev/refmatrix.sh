#!/bin/bash
# Re-runs every filed behaviour-preserving refactoring and every "freedom" patch against all
# ten quick checks; every line must say QUIET. Development tool.
cd /verif
for d in refactorings/C*/; do
  id=$(basename $d)
  for p in C03 C05 C06 C07 C09 C10 C14 C16 C17 C18; do
    line=$(./dev/mutcheck.sh /verif/$d/patch.diff $p | tail -1 | cut -c1-200)
    case "$line" in SURVIVED*) echo "QUIET $id $p";; *) echo "ALARM $id $p :: $line";; esac
  done
done
for f in refactorings/freedoms/*.patch; do
  for p in C03 C05 C06 C07 C09 C10 C14 C16 C17 C18; do
    line=$(./dev/mutcheck.sh /verif/$f $p | tail -1 | cut -c1-200)
    case "$line" in SURVIVED*) echo "QUIET $(basename $f) $p";; *) echo "ALARM $(basename $f) $p :: $line";; esac
  done
done
