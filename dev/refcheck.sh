#!/bin/bash
# usage: refcheck.sh <agent worktree> <k> <id> <property the refactoring was written for>
# A behaviour-preserving refactoring: confirms that suite and demonstration pass with and
# without it, then runs ALL registered quick checks against it (every one must exit 0) and
# files it under /verif/refactorings/<id>/.
export GOFLAGS=-mod=mod GOPROXY=off GOSUMDB=off GOTOOLCHAIN=local
wt="$1"; k="$2"; id="$3"; prop="$4"
src="$wt/_seed/$k"
[ -f "$src/patch.diff" ] || { echo "no patch in $src"; exit 2; }
demo=$(ls "$src"/*_test.go 2>/dev/null | head -1)
pkg=$(grep -m1 '^package ' "$demo" | awk '{print $2}')
case "$pkg" in
  packet|packet_test) dir=packet;; psi|psi_test) dir=psi;; scte35|scte35_test) dir=scte35;; ebp) dir=ebp;; pes) dir=pes;; gots|gots_test) dir=.;; adaptationfield|adaptationfield_test) dir=packet/adaptationfield;; *) dir=$pkg;;
esac
v=/tmp/wt/verify-$id
git -C /repo worktree remove --force $v 2>/dev/null
git -C /repo worktree add -q --detach $v HEAD || exit 2
trap 'git -C /repo worktree remove --force '$v' 2>/dev/null' EXIT
cd $v
git apply "$src/patch.diff" || { echo "REF $id: patch does not apply"; exit 2; }
go build ./... || { echo "REF $id: does not compile"; exit 2; }
if go test -count=1 ./... > /tmp/ref_suite.out 2>&1; then suite=pass; else suite=FAIL; fi
cp "$demo" "$dir/zz_seed_demo_test.go"
if go test -count=1 ./$dir -run 'Seed|seed' > /tmp/ref_with.out 2>&1; then with=pass; else with=FAIL; fi
git checkout -q -- .
if go test -count=1 ./$dir -run 'Seed|seed' > /tmp/ref_without.out 2>&1; then without=pass; else without=FAIL; fi
rm -f "$dir/zz_seed_demo_test.go"
lines=$(grep -c '^[-+][^-+]' "$src/patch.diff")
echo "REF $id: suite_with_change=$suite demo_with_change=$with demo_without_change=$without changed_lines=$lines"
cd /verif
results=""
if [ "$suite" = pass ]; then
  for p in C03 C05 C06 C07 C09 C10 C14 C16 C17 C18; do
    line=$(/verif/dev/mutcheck.sh "$src/patch.diff" $p | tail -1 | cut -c1-260)
    case "$line" in SURVIVED*) line="QUIET    $p";; KILLED*) line="ALARM    ${line#KILLED   }";; esac
    echo "  $line"
    results="$results$line\n"
  done
fi
mkdir -p /verif/refactorings/$id
cp "$src/patch.diff" /verif/refactorings/$id/patch.diff
cp "$demo" /verif/refactorings/$id/$(basename "$demo").txt
[ -f "$src/README.md" ] && cp "$src/README.md" /verif/refactorings/$id/README.md
python3 - "$id" "$prop" "$suite" "$with" "$without" "$lines" "$results" <<'PY'
import json,sys
id,prop,suite,withc,without,lines,results=sys.argv[1:8]
json.dump({"id":id,"kind":"behaviour-preserving refactoring","written_for":prop,"changed_lines":int(lines),
 "suite_with_change":suite,"demo_with_change":withc,"demo_without_change":without,
 "check_results":[l for l in results.replace("\\n","\n").split("\n") if l.strip()]},
 open("/verif/refactorings/%s/meta.json"%id,"w"),indent=1)
PY
