#!/bin/bash
# usage: seedcheck.sh <agent worktree> <k> <seed id> <property id>...
# 1. confirms the seeded change independently in a fresh scratch worktree
#    (suite passes with it, demonstration fails with it and passes without it),
# 2. runs the registered quick checks of the given properties against it (applied to /repo, undone afterwards),
# 3. files it under /verif/seeded/<seed id>/ with meta.json.
export GOFLAGS=-mod=mod GOPROXY=off GOSUMDB=off GOTOOLCHAIN=local
wt="$1"; k="$2"; id="$3"; shift 3
src="$wt/_seed/$k"
[ -f "$src/patch.diff" ] || { echo "no patch in $src"; exit 2; }
demo=$(ls "$src"/*_test.go "$src"/*.go 2>/dev/null | head -1)
pkg=$(grep -m1 '^package ' "$demo" | awk '{print $2}')
case "$pkg" in
  packet) dir=packet;; psi) dir=psi;; scte35) dir=scte35;; ebp) dir=ebp;; pes) dir=pes;; gots) dir=.;; adaptationfield) dir=packet/adaptationfield;;
  packet_test) dir=packet;; psi_test) dir=psi;; scte35_test) dir=scte35;; *) dir=$pkg;;
esac
v=/tmp/wt/verify-$id
git -C /repo worktree remove --force $v 2>/dev/null
git -C /repo worktree add -q --detach $v HEAD || exit 2
cleanup() { git -C /repo worktree remove --force $v 2>/dev/null; }
trap cleanup EXIT
cd $v
git apply "$src/patch.diff" || { echo "SEED $id: patch does not apply"; exit 2; }
go build ./... || { echo "SEED $id: does not compile"; exit 2; }
if go test -count=1 ./... > /tmp/seed_suite.out 2>&1; then suite=pass; else suite=FAIL; fi
cp "$demo" "$dir/zz_seed_demo_test.go"
if go test -count=1 ./$dir -run 'Seed|Demo|seed' > /tmp/seed_with.out 2>&1; then with=pass; else with=fail; fi
git checkout -q -- . 
if go test -count=1 ./$dir -run 'Seed|Demo|seed' > /tmp/seed_without.out 2>&1; then without=pass; else without=FAIL; fi
rm -f "$dir/zz_seed_demo_test.go"
echo "SEED $id: suite_with_change=$suite demo_with_change=$with demo_without_change=$without (demo package $pkg in $dir)"
confirmed=false
[ "$suite" = pass ] && [ "$with" = fail ] && [ "$without" = pass ] && confirmed=true
cd /verif
results=""
if $confirmed; then
  for p in "$@"; do
    line=$(/verif/dev/mutcheck.sh "$src/patch.diff" $p | tail -1)
    echo "  $line"
    results="$results$line\n"
  done
fi
mkdir -p /verif/seeded/$id
cp "$src/patch.diff" /verif/seeded/$id/patch.diff
cp "$demo" /verif/seeded/$id/$(basename "$demo" | sed 's/_test.go$/_test.go.txt/')
[ -f "$src/README.md" ] && cp "$src/README.md" /verif/seeded/$id/README.md
python3 - "$id" "$confirmed" "$suite" "$with" "$without" "$dir" "$results" "$@" <<'PY'
import json,sys
id,confirmed,suite,withc,without,dir,results=sys.argv[1:8]; props=sys.argv[8:]
meta={"seed_id":id,"breaks_property":props[0] if props else None,"checked_against":props,
 "confirmed_independently":confirmed=="true",
 "what_i_ran":["fresh scratch worktree of /repo HEAD under /tmp/wt (removed afterwards)","git apply patch.diff; go build ./...; go test -count=1 ./...  -> "+suite,
   "demonstration copied into "+dir+"/ and run with the change -> "+withc, "same demonstration after git checkout -- . -> "+without,
   "git -C /repo apply patch.diff; /verif/run.sh <property> quick; git -C /repo checkout -- ."],
 "check_results":[l for l in results.replace("\\n","\n").split("\n") if l.strip()],
 "needs_to_manifest":"see README.md (written by the independent sub-agent that produced the change)"}
json.dump(meta,open("/verif/seeded/%s/meta.json"%id,"w"),indent=1)
PY
