#!/bin/bash
# Re-runs every filed seeded change (and every revert/hand mutant) against the quick check of
# the property it is filed under and prints one line each. Development tool.
cd /verif
for d in seeded/*/; do
  id=$(basename $d)
  props=$(python3 -c "import json;print(' '.join(json.load(open('$d/meta.json'))['checked_against']))")
  for p in $props; do ./dev/mutcheck.sh /verif/$d/patch.diff $p | sed "s/patch.diff/$id/" | cut -c1-200; done
done
