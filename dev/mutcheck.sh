#!/bin/bash
# usage: mutcheck.sh <patch> <property id>...   (development tool, not a registered command)
# Applies a patch to /repo, checks that it compiles and that the pinned test suite still
# passes, runs the quick checks of the given properties, then restores /repo.
# Prints one line per property: KILLED (exit 1) / SURVIVED (exit 0) / BROKEN (exit 2).
export GOFLAGS=-mod=mod GOPROXY=off GOSUMDB=off GOTOOLCHAIN=local
patch="$1"; shift
cd /repo || exit 2
if [ -n "$(git status --porcelain)" ]; then echo "/repo not clean"; exit 2; fi
restore() { git -C /repo checkout -q -- . ; git -C /repo clean -fdq ; }
trap restore EXIT
if ! git apply ${MUT_REVERSE:+-R} "$patch" 2>/tmp/mut_apply.err; then echo "PATCH-DOES-NOT-APPLY $(basename $patch): $(head -1 /tmp/mut_apply.err)"; exit 2; fi
if ! go build ./... 2>/tmp/mut_build.err; then echo "DOES-NOT-COMPILE $(basename $patch)"; exit 2; fi
if ! go test -count=1 ./... >/tmp/mut_test.out 2>&1; then echo "BASELINE-TESTS-FAIL $(basename $patch): $(grep -m1 -- '--- FAIL' /tmp/mut_test.out)"; exit 2; fi
for p in "$@"; do
  out=$(VERIF_EVIDENCE_DIR=/tmp/mut-evidence VERIF_RUNS=${MUT_RUNS:-} /verif/run.sh $p quick 2>&1); code=$?
  case $code in
    1) echo "KILLED   $p $(basename $patch): $(echo "$out" | grep -m1 '^violation:' | cut -c1-220)";;
    0) echo "SURVIVED $p $(basename $patch)";;
    *) echo "BROKEN   $p $(basename $patch) (exit $code): $(echo "$out" | tail -2 | tr '\n' ' ' | cut -c1-200)";;
  esac
done
