#!/usr/bin/env python3
"""Development tool: mechanical single-token mutants of a Go source file.

usage: mutgen.py <file relative to /repo> <out dir> [max] [seed]

Writes <out dir>/<n>.patch (git-apply format) for up to `max` mutants chosen by a seeded
shuffle of all (line, operator) candidates. Comment lines, imports, String()/Format() bodies
and error-message strings are skipped. One token per mutant.
"""
import os, random, re, subprocess, sys

REPO = "/repo"
SWAPS = [
    (r"<=", "<"), (r">=", ">"), (r"(?<![<>=!])<(?![<=])", "<="), (r"(?<![<>=!-])>(?![>=])", ">="),
    (r"==", "!="), (r"!=", "=="), (r"&&", "||"), (r"\|\|", "&&"),
    (r"\+ 1\b", "+ 2"), (r"- 1\b", "- 0"), (r"\+ 2\b", "+ 1"), (r"\+= 1\b", "+= 2"), (r"\+\+", "--"),
    (r"\btrue\b", "false"), (r"\bfalse\b", "true"),
    (r"0x1f\b", "0x0f"), (r"0x1F\b", "0x0F"), (r"0x0f\b", "0x1f"), (r"0x0F\b", "0x1F"), (r"0x03\b", "0x01"), (r"0x3f\b", "0x1f"),
    (r"0x80\b", "0x40"), (r"0x40\b", "0x80"), (r"0x20\b", "0x10"), (r"0x10\b", "0x20"), (r"0xff\b", "0x7f"), (r"0xFF\b", "0x7F"),
    (r"<< 8\b", "<< 7"), (r">> 8\b", ">> 7"), (r"<<8\b", "<<7"), (r">>8\b", ">>7"),
    (r"\bbreak\b", "continue"), (r"\bcontinue\b", "break"),
    (r"\b188\b", "187"), (r"\b184\b", "183"), (r"\b183\b", "184"), (r"\b4\b", "5"), (r"\b5\b", "4"), (r"\b3\b", "2"), (r"\b2\b", "3"), (r"\b1\b", "0"), (r"\b0\b", "1"),
    (r"\breturn nil\b", "return gots.ErrInvalidPacketLength"),
    (r"\| ", "& "), (r" & ", " | "),
]


def main():
    rel, out = sys.argv[1], sys.argv[2]
    mx = int(sys.argv[3]) if len(sys.argv) > 3 else 30
    seed = int(sys.argv[4]) if len(sys.argv) > 4 else 1
    path = os.path.join(REPO, rel)
    lines = open(path).read().split("\n")
    cands = []
    in_block_comment = False
    in_skip_func = False
    depth_at_skip = 0
    for i, l in enumerate(lines):
        s = l.strip()
        if in_block_comment:
            if "*/" in s:
                in_block_comment = False
            continue
        if s.startswith("/*"):
            in_block_comment = "*/" not in s
            continue
        if re.match(r"func .*\b(String|Format)\(", s):
            in_skip_func = True
        if in_skip_func:
            if l.startswith("}"):
                in_skip_func = False
            continue
        if not s or s.startswith("//") or s.startswith("import") or s.startswith('"') or s.startswith("package"):
            continue
        code = l.split("//")[0]
        if "fmt." in code or "errors.New" in code or "Errorf" in code:
            continue
        for k, (pat, rep) in enumerate(SWAPS):
            for m in re.finditer(pat, code):
                # not inside a string literal (rough: even number of quotes before the match)
                if code[: m.start()].count('"') % 2 == 1:
                    continue
                cands.append((i, m.start(), m.end(), rep))
    random.Random(seed).shuffle(cands)
    os.makedirs(out, exist_ok=True)
    n = 0
    seen = set()
    for (i, a, b, rep) in cands:
        if n >= mx:
            break
        new = lines[i][:a] + rep + lines[i][b:]
        if (i, new) in seen:
            continue
        seen.add((i, new))
        mutated = lines[:i] + [new] + lines[i + 1 :]
        tmp = "/tmp/mutgen_tmp.go"
        open(tmp, "w").write("\n".join(mutated))
        d = subprocess.run(["diff", "-u", "--label", "a/" + rel, "--label", "b/" + rel, path, tmp], capture_output=True, text=True).stdout
        if not d:
            continue
        open(os.path.join(out, "%03d.patch" % n), "w").write(d)
        n += 1
    print("wrote", n, "mutants of", rel, "from", len(cands), "candidates")


if __name__ == "__main__":
    main()
