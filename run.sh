#!/bin/bash
# usage: run.sh <property id> <quick|thorough>
# Rebuilds the simulator against /repo's current working tree, then runs the check.
# exit 0 held / 1 VIOLATION / 2 build, self-test, watchdog or vacuity trouble.
# VERIF_DIR (default /verif) lets a snapshot of this directory run on its own
# (vp run): binary, replays and evidence then stay inside the snapshot.
export GOFLAGS=-mod=mod GOPROXY=off GOSUMDB=off GOTOOLCHAIN=local
export VERIF_DIR="${VERIF_DIR:-/verif}"
cd "$VERIF_DIR/sim" || exit 2
mkdir -p "$VERIF_DIR/bin" "$VERIF_DIR/evidence" "$VERIF_DIR/replays"
# VERIF_REPO (default /repo): build against another checkout of the library, e.g. the
# snapshot `vp run --with-repo` provides, so that a long background run is not disturbed
# by patches applied to /repo meanwhile. Registered commands always use /repo itself.
MODFLAG=""
if [ -n "$VERIF_REPO" ] && [ "$VERIF_REPO" != "/repo" ]; then
  sed "s|=> /repo|=> $VERIF_REPO|" go.mod > go.alt.mod && cp go.sum go.alt.sum
  MODFLAG="-modfile=go.alt.mod"
fi
if ! go build $MODFLAG -o "$VERIF_DIR/bin/gotsim" . ; then
  echo "build failed (not a verdict about the property)" >&2
  exit 2
fi
exec "$VERIF_DIR/bin/gotsim" check --property "$1" --tier "${2:-quick}"
