#!/bin/bash
# usage: run.sh <property id> <quick|thorough>
# Rebuilds the simulator against /repo's current working tree, then runs the check.
# exit 0 held / 1 VIOLATION / 2 build, self-test, watchdog or vacuity trouble.
export GOFLAGS=-mod=mod GOPROXY=off GOSUMDB=off GOTOOLCHAIN=local
cd /verif/sim || exit 2
mkdir -p /verif/bin /verif/evidence /verif/replays
if ! go build -o /verif/bin/gotsim . ; then
  echo "build failed (not a verdict about the property)" >&2
  exit 2
fi
exec /verif/bin/gotsim check --property "$1" --tier "${2:-quick}"
