package parties

import (
	"fmt"
	"io"

	"github.com/Comcast/gots/v2/packet"

	"verif/sim/core"
)

// SinkPlan scripts the behaviour of the packet sink.
//
//	FailAt  index of the WritePacket call that misbehaves (-1: never)
//	Kind    "err" (0, injected error) | "short" (ShortN, nil)
//	CloseErr  Close returns an injected error
type SinkPlan struct {
	FailAt   int    `json:"fail_at"`
	Kind     string `json:"kind,omitempty"`
	ShortN   int    `json:"short_n,omitempty"`
	CloseErr bool   `json:"close_err,omitempty"`
	// As: the error VALUE a failing write returns: "" = a distinct injected error,
	// "eof" = io.EOF, "ueof" = io.ErrUnexpectedEOF (a sink is free to fail with those),
	// "temporary" = an error whose Temporary() method says true
	As string `json:"as,omitempty"`
}

// SimSink is the PacketWriter handed to the adapters. It copies what it is
// given at call time (the PacketWriter contract lets the caller reuse the
// packet afterwards) and never retains the pointer.
type SimSink struct {
	Plan   SinkPlan
	Log    []packet.Packet
	Calls  int
	Closed int
	Err    error
	ctx    *core.Ctx
}

func NewSimSink(plan SinkPlan, ctx *core.Ctx) *SimSink { return &SimSink{Plan: plan, ctx: ctx} }

func (s *SimSink) WritePacket(p *packet.Packet) (int, error) {
	i := s.Calls
	s.Calls++
	s.Log = append(s.Log, *p)
	if i == s.Plan.FailAt {
		switch s.Plan.Kind {
		case "short":
			s.ctx.Fault("sink_short_count")
			return s.Plan.ShortN, nil
		case "errfull":
			// fails, yet reports the packet as consumed (the library's own Accumulator does that)
			s.ctx.Fault("sink_write_err_full_count")
			s.Err = s.errValue(i)
			return len(p), s.Err
		default:
			s.ctx.Fault("sink_write_err")
			s.Err = s.errValue(i)
			return 0, s.Err
		}
	}
	return len(p), nil
}

func (s *SimSink) Close() error {
	s.Closed++
	if s.Plan.CloseErr {
		s.ctx.Fault("sink_close_err")
		return &InjectedErr{ID: 2000}
	}
	return nil
}

func (s *SimSink) errValue(i int) error {
	switch s.Plan.As {
	case "eof":
		return io.EOF
	case "ueof":
		return io.ErrUnexpectedEOF
	case "temporary":
		return &TemporaryErr{ID: 1000 + i}
	case "shortwrite":
		return io.ErrShortWrite // the value a stacked adapter fails with when ITS sink took part of a packet
	}
	return &InjectedErr{ID: 1000 + i}
}

// TemporaryErr is an injected error that also answers Temporary() == true, the way
// syscall.EAGAIN, EINTR and many net errors do. A failed packet write is a failed packet
// write, whatever else the error value says about itself.
type TemporaryErr struct{ ID int }

func (e *TemporaryErr) Error() string   { return fmt.Sprintf("injected temporary fault #%d", e.ID) }
func (e *TemporaryErr) Temporary() bool { return true }
func (e *TemporaryErr) Timeout() bool   { return false }

// SimSinkW is a SimSink whose type ALSO has a raw Write method (like a file sink that
// embeds *os.File or a bytes.Buffer). An adapter built over it must still go through
// WritePacket; RawWrites counts calls that bypassed it.
type SimSinkW struct {
	*SimSink
	RawWrites int
}

func (s *SimSinkW) Write(p []byte) (int, error) {
	s.RawWrites++
	return len(p), nil
}
