// Package parties holds the simulated parties around the library: the
// reader ("disk/socket"), the packet sink, the packetiser and the multiplexer.
// All of them are driven by explicit script data; none draws random numbers.
package parties

import (
	"context"
	"errors"
	"fmt"
	"io"
	"io/fs"
	"os"

	"verif/sim/core"
)

// ReadOp is the scripted outcome of one Read call on a SimReader.
//
//	full      as many bytes as fit and remain
//	short     min(N, fit) bytes (N>=1)
//	one       one byte
//	zero      (0, nil)  - legal but discouraged; bounded by the generator
//	data_eof  remaining data that fits, together with io.EOF if that was the rest
//	err       N bytes (possibly 0) together with a distinct injected error; later reads continue
//	hard_err  like err, and every later read fails with the same error
type ReadOp struct {
	Kind string `json:"k"`
	N    int    `json:"n,omitempty"`
	// As: the error value an err/hard_err outcome fails with: "" = a distinct injected error,
	// "ueof" = io.ErrUnexpectedEOF (what a truncated gzip or TLS stream returns)
	As string `json:"as,omitempty"`
}

// InjectedErr is the error a scripted reader/sink/predicate fault delivers.
type InjectedErr struct{ ID int }

func (e *InjectedErr) Error() string { return fmt.Sprintf("injected fault #%d", e.ID) }

// SimReader is the io.Reader handed to the library.
type SimReader struct {
	Data      []byte
	Ops       []ReadOp
	pos       int
	op        int
	sticky    error
	nerr      int
	ctx       *core.Ctx
	stallLeft int
	Stalled   bool // a "stall" outcome has begun
	Benign    bool // ignore the remaining ops: plain full reads
	// DefaultKind is the outcome used once Ops is exhausted ("" = full).
	DefaultKind string
	// bookkeeping for oracles
	Calls        int
	FirstErrAt   int // bytes delivered in calls before the first failing call (-1: none)
	FirstErrWith int // bytes delivered up to and including the first failing call
	FirstErr     error
	zeros        int
	stutter      bool
}

func NewSimReader(data []byte, ops []ReadOp, ctx *core.Ctx) *SimReader {
	return &SimReader{Data: data, Ops: ops, ctx: ctx, FirstErrAt: -1, FirstErrWith: -1}
}

func (r *SimReader) Pos() int { return r.pos }

func (r *SimReader) Read(p []byte) (int, error) {
	n, err := r.read(p)
	if r.ctx != nil {
		r.ctx.Log("rd n=%d err=%v", n, err)
	}
	return n, err
}

func (r *SimReader) read(p []byte) (int, error) {
	r.Calls++
	if r.sticky != nil && !r.Benign {
		return 0, r.sticky
	}
	if r.stallLeft > 0 && !r.Benign {
		r.stallLeft--
		return 0, nil
	}
	rem := len(r.Data) - r.pos
	op := ReadOp{Kind: "full"}
	if !r.Benign && r.op < len(r.Ops) {
		op = r.Ops[r.op]
		r.op++
	} else if !r.Benign && r.DefaultKind != "" {
		op = ReadOp{Kind: r.DefaultKind, N: 1}
	}
	if len(p) == 0 {
		return 0, nil
	}
	give := func(n int) int {
		if n > rem {
			n = rem
		}
		if n > len(p) {
			n = len(p)
		}
		copy(p, r.Data[r.pos:r.pos+n])
		r.pos += n
		return n
	}
	switch op.Kind {
	case "short":
		if rem == 0 {
			return 0, io.EOF
		}
		n := op.N
		if n < 1 {
			n = 1
		}
		n = give(n)
		if n < len(p) && n < rem {
			r.fault("read_short")
		}
		return n, nil
	case "one":
		if rem == 0 {
			return 0, io.EOF
		}
		r.fault("read_one_byte")
		return give(1), nil
	case "stall":
		// the source delivers nothing for 100 calls in a row (bufio gives up with
		// io.ErrNoProgress at exactly that point), then carries on as if nothing had happened
		if rem == 0 {
			return 0, io.EOF
		}
		r.stallLeft = 99
		r.Stalled = true
		r.fault("read_stall_100")
		return 0, nil
	case "stutter":
		// an empty read before every single byte: progress all the time, never two empty
		// reads in a row, hundreds of them per packet
		if rem == 0 {
			return 0, io.EOF
		}
		r.stutter = !r.stutter
		if r.stutter {
			r.fault("read_zero")
			return 0, nil
		}
		return give(1), nil
	case "zero":
		if rem == 0 {
			return 0, io.EOF
		}
		r.zeros++
		if r.zeros > 40 { // never let the harness itself cause io.ErrNoProgress
			return give(len(p)), nil
		}
		r.fault("read_zero")
		return 0, nil
	case "data_eof":
		if rem == 0 {
			return 0, io.EOF
		}
		n := give(len(p))
		if r.pos == len(r.Data) {
			r.fault("read_data_with_eof")
			return n, io.EOF
		}
		return n, nil
	case "err", "hard_err":
		before := r.pos
		n := give(op.N)
		r.nerr++
		var e error = &InjectedErr{ID: r.nerr}
		switch op.As {
		case "ueof":
			e = io.ErrUnexpectedEOF
		case "weof":
			e = fmt.Errorf("upstream closed: %w", io.EOF) // not io.EOF itself, but errors.Is(e, io.EOF)
		case "closedpipe":
			e = io.ErrClosedPipe
		case "osclosed":
			e = &fs.PathError{Op: "read", Path: "/dev/dvb/adapter0/dvr0", Err: os.ErrClosed}
		case "noprogress":
			e = io.ErrNoProgress
		case "canceled":
			e = context.Canceled
		case "deadline":
			e = os.ErrDeadlineExceeded // Timeout() == true
		case "temporary":
			e = &TemporaryErr{ID: r.nerr} // Temporary() == true, like EAGAIN / EINTR
		}
		if r.FirstErr == nil {
			r.FirstErr, r.FirstErrAt, r.FirstErrWith = e, before, r.pos
		}
		if op.Kind == "hard_err" {
			r.sticky = e
			r.fault("read_hard_err")
		} else {
			r.fault("read_transient_err")
		}
		return n, e
	}
	if rem == 0 {
		return 0, io.EOF
	}
	return give(len(p)), nil
}

func (r *SimReader) fault(kind string) {
	if r.ctx != nil {
		r.ctx.Fault(kind)
	}
}

// RefusingSeeker gives a reader a Seek method that always fails, like an *os.File that is a
// pipe, a FIFO or a terminal: having the method says nothing about being able to seek.
type RefusingSeeker struct{ io.Reader }

func (RefusingSeeker) Seek(offset int64, whence int) (int64, error) {
	return 0, &fs.PathError{Op: "seek", Path: "|0", Err: errors.New("illegal seek")}
}

// IsReaderFault reports whether err is (or wraps) an error a SimReader injects: its own
// InjectedErr, or one of the well-known sentinel values a reader fault may carry instead
// (a closed pipe or file, no progress, a cancelled context, a deadline). The EOF-like values
// ("ueof", "weof") are not included: only C18 uses those, with its own bookkeeping.
func IsReaderFault(err error) bool {
	var inj *InjectedErr
	var tmp *TemporaryErr
	return errors.As(err, &inj) || errors.As(err, &tmp) || errors.Is(err, io.ErrClosedPipe) || errors.Is(err, os.ErrClosed) ||
		errors.Is(err, io.ErrNoProgress) || errors.Is(err, context.Canceled) || errors.Is(err, os.ErrDeadlineExceeded)
}

// SentinelAs are the values GenReadOps may give a reader fault instead of a distinct injected
// error.
var SentinelAs = []string{"closedpipe", "osclosed", "noprogress", "canceled", "deadline", "temporary"}

// HasErrOps reports whether the op list contains an error outcome at all.
func HasErrOps(ops []ReadOp) bool {
	for _, o := range ops {
		if o.Kind == "err" || o.Kind == "hard_err" {
			return true
		}
	}
	return false
}

// GenReadOps draws a list of read outcomes. style selects the flavour so that
// a run is dominated by one behaviour (swarm): "full", "frag", "one",
// "mixed"; withErr adds at most one error outcome.
func GenReadOps(r *core.Rand, n int, style string, withErr bool) []ReadOp {
	var ops []ReadOp
	switch style {
	case "full":
		// no ops: benign default
	case "one":
		for i := 0; i < n; i++ {
			ops = append(ops, ReadOp{Kind: "one"})
		}
	case "frag":
		for i := 0; i < n; i++ {
			ops = append(ops, ReadOp{Kind: "short", N: r.Pick(1, 2, 3, 4, 5, 7, 16, 47, 94, 100, 187, 188, 189, 200, 376)})
		}
	default: // mixed
		for i := 0; i < n; i++ {
			switch r.Intn(8) {
			case 0:
				ops = append(ops, ReadOp{Kind: "one"})
			case 1:
				ops = append(ops, ReadOp{Kind: "zero"})
			case 2, 3:
				ops = append(ops, ReadOp{Kind: "short", N: r.Range(1, 400)})
			case 4:
				ops = append(ops, ReadOp{Kind: "data_eof"})
			default:
				ops = append(ops, ReadOp{Kind: "full"})
			}
		}
	}
	if withErr {
		k := "err"
		if r.Chance(1, 3) {
			k = "hard_err"
		}
		e := ReadOp{Kind: k, N: r.Pick(0, 0, 1, 3, 4, 100, 187, 188)}
		if r.Chance(1, 4) {
			e.As = SentinelAs[r.Intn(len(SentinelAs))] // a reader may fail with any value, also a famous one
		}
		at := 0
		if len(ops) > 0 {
			at = r.Intn(len(ops) + 1)
		}
		ops = append(ops[:at], append([]ReadOp{e}, ops[at:]...)...)
	}
	if style != "full" && r.Chance(1, 4) {
		ops = append(ops, ReadOp{Kind: "data_eof"})
	}
	return ops
}

// ShrinkReadOps proposes simpler op lists.
func ShrinkReadOps(ops []ReadOp) [][]ReadOp {
	var out [][]ReadOp
	for _, keep := range core.DropChunks(len(ops)) {
		n := make([]ReadOp, 0, len(keep))
		for _, i := range keep {
			n = append(n, ops[i])
		}
		out = append(out, n)
	}
	for i, o := range ops {
		if o.Kind != "full" && o.Kind != "err" && o.Kind != "hard_err" {
			n := append([]ReadOp(nil), ops...)
			n[i] = ReadOp{Kind: "full"}
			out = append(out, n)
		}
		if o.Kind == "hard_err" {
			n := append([]ReadOp(nil), ops...)
			n[i] = ReadOp{Kind: "err", N: o.N}
			out = append(out, n)
		}
		if o.N > 1 {
			n := append([]ReadOp(nil), ops...)
			n[i].N = o.N / 2
			out = append(out, n)
		}
	}
	return out
}
