package parties

// Pkt is one 188-byte transport packet as the simulated producer builds it
// (kept independent of the library's packet type).
type Pkt = [188]byte

// Carrier scripts how one logical payload (pointer_field + sections, or a
// PES start, ...) is cut into transport packets of one PID.
//
//	Sizes   payload bytes carried by each packet (1..184); once exhausted: 184
//	Styles  how the rest of a short packet is filled:
//	        "af"    adaptation-field stuffing (AF length 183-n, flags 0)
//	        "afpcr" adaptation field with a PCR then stuffing (needs >=8 spare bytes, else "af")
//	        "afrai" adaptation field with random_access+discontinuity flags set
//	        "ff"    0xFF bytes appended to the payload - only honoured in the
//	                packet that carries the last payload byte (section stuffing)
//	        once exhausted: "af"
type Carrier struct {
	PID    int      `json:"pid"`
	CC     int      `json:"cc"`
	Sizes  []int    `json:"sizes,omitempty"`
	Styles []string `json:"styles,omitempty"`
	// NoPUSI clears payload_unit_start_indicator on the first packet
	// (joining mid-unit); used only by damaged-stream scripts.
	NoPUSI bool `json:"no_pusi,omitempty"`
	// Prio / scrambling bits copied into every header (must be preserved by relays)
	TP bool `json:"tp,omitempty"`
	// TSC: transport_scrambling_control (2 bits) of every packet
	TSC int `json:"tsc,omitempty"`
}

// Packetise cuts payload into packets according to the carrier script.
func Packetise(payload []byte, c Carrier) []Pkt {
	var out []Pkt
	pos := 0
	for i := 0; pos < len(payload); i++ {
		n := 184
		if i < len(c.Sizes) {
			n = c.Sizes[i]
		}
		if n < 1 {
			n = 1
		}
		if n > 184 {
			n = 184
		}
		rem := len(payload) - pos
		if n > rem {
			n = rem
		}
		style := "af"
		if i < len(c.Styles) {
			style = c.Styles[i]
		}
		var p Pkt
		p[0] = 0x47
		p[1] = byte(c.PID>>8) & 0x1f
		if i == 0 && !c.NoPUSI {
			p[1] |= 0x40
		}
		if c.TP {
			p[1] |= 0x20
		}
		p[2] = byte(c.PID)
		cc := byte(c.CC+i) & 0x0f
		last := n == rem
		switch {
		case n == 184:
			p[3] = 0x10 | cc
			copy(p[4:], payload[pos:pos+n])
		case style == "ff" && last:
			p[3] = 0x10 | cc
			copy(p[4:], payload[pos:pos+n])
			for k := 4 + n; k < 188; k++ {
				p[k] = 0xFF
			}
		default:
			p[3] = 0x30 | cc
			afl := 183 - n
			p[4] = byte(afl)
			if afl >= 1 {
				p[5] = 0x00
				k := 6
				switch {
				case style == "afpcr" && afl >= 7:
					p[5] = 0x10
					pcr := []byte{byte(i + 1), 0x22, 0x33, 0x44, 0x7E | byte(i&1)<<7, byte(0x55 + i)}
					copy(p[6:], pcr)
					k = 12
				case style == "afrai":
					p[5] = 0xC0
				}
				for ; k < 5+afl; k++ {
					p[k] = 0xFF
				}
			}
			copy(p[5+afl:], payload[pos:pos+n])
		}
		p[3] |= byte(c.TSC&3) << 6
		out = append(out, p)
		pos += n
	}
	return out
}

// Mux merges per-PID queues into one packet sequence. queues[0] is the stream
// under test. At every slot the script's pick selects among the queues that
// still hold packets (pick mod number of non-empty queues, in queue order);
// once Picks is exhausted the default is round-robin starting with queue 0.
// It returns the sequence and, for each output packet, its queue index.
func Mux(queues [][]Pkt, picks []int) ([]Pkt, []int) {
	idx := make([]int, len(queues))
	var out []Pkt
	var from []int
	for slot := 0; ; slot++ {
		var live []int
		for q := range queues {
			if idx[q] < len(queues[q]) {
				live = append(live, q)
			}
		}
		if len(live) == 0 {
			break
		}
		pick := slot
		if slot < len(picks) {
			pick = picks[slot]
		}
		if pick < 0 {
			pick = -pick
		}
		q := live[pick%len(live)]
		out = append(out, queues[q][idx[q]])
		from = append(from, q)
		idx[q]++
	}
	return out, from
}

// Flatten concatenates packets into a byte stream.
func Flatten(pkts []Pkt) []byte {
	b := make([]byte, 0, len(pkts)*188)
	for i := range pkts {
		b = append(b, pkts[i][:]...)
	}
	return b
}

// NullPacket is a stuffing packet (PID 0x1FFF).
func NullPacket(salt int) Pkt {
	var p Pkt
	p[0], p[1], p[2], p[3] = 0x47, 0x1f, 0xff, 0x10|byte(salt&0x0f)
	for k := 4; k < 188; k++ {
		p[k] = byte(salt + k)
	}
	return p
}

// PESPacket is a payload packet of a foreign elementary stream PID; the first
// of a unit starts with a PES start code.
func PESPacket(pid, i, salt int) Pkt {
	var p Pkt
	p[0], p[1], p[2], p[3] = 0x47, byte(pid>>8)&0x1f, byte(pid), 0x10|byte(i&0x0f)
	k := 4
	if i%3 == 0 {
		p[1] |= 0x40
		copy(p[4:], []byte{0x00, 0x00, 0x01, 0xE0, 0x00, 0x00, 0x80, 0x80, 0x05, 0x21, 0x00, 0x01, 0x00, 0x01})
		k = 18
	}
	for ; k < 188; k++ {
		p[k] = byte(salt*31 + i*7 + k)
	}
	return p
}
