// gotsim: deterministic simulation with fault injection for Comcast/gots.
//
//	gotsim check --property C16 --tier quick|thorough
//	gotsim replay [--verbose] <file>
//	gotsim selftest [--n 200] [--property Cxx]
//	gotsim list
//
// worker, exec-one and hashes are internal sub-commands.
package main

import (
	"encoding/json"
	"flag"
	"fmt"
	"os"
	"strconv"
	"strings"
	"time"

	"verif/sim/core"
	_ "verif/sim/props"
)

func main() {
	if len(os.Args) < 2 {
		fmt.Fprintln(os.Stderr, "usage: gotsim check|replay|selftest|list ...")
		os.Exit(2)
	}
	cmd, args := os.Args[1], os.Args[2:]
	switch cmd {
	case "list":
		for _, id := range core.IDs() {
			fmt.Println(id)
		}
	case "check":
		fs := flag.NewFlagSet("check", flag.ExitOnError)
		prop := fs.String("property", "", "property id")
		tier := fs.String("tier", "quick", "quick|thorough")
		fs.Parse(args)
		if t := os.Getenv("VERIF_TIER"); t == "quick" || t == "thorough" {
			*tier = t
		}
		os.Exit(core.Check(*prop, *tier))
	case "replay":
		fs := flag.NewFlagSet("replay", flag.ExitOnError)
		verbose := fs.Bool("verbose", false, "print the event log")
		fs.Parse(args)
		if fs.NArg() != 1 {
			fmt.Fprintln(os.Stderr, "usage: gotsim replay [--verbose] <file>")
			os.Exit(2)
		}
		os.Exit(core.Replay(fs.Arg(0), *verbose))
	case "selftest":
		fs := flag.NewFlagSet("selftest", flag.ExitOnError)
		n := fs.Int("n", 200, "runs per property")
		prop := fs.String("property", "", "only this property")
		tier := fs.String("tier", "quick", "tier whose generator is tested")
		fs.Parse(args)
		props := core.IDs()
		if *prop != "" {
			props = []string{*prop}
		}
		os.Exit(core.SelfTest(props, *n, *tier))
	case "hashes":
		fs := flag.NewFlagSet("hashes", flag.ExitOnError)
		prop := fs.String("property", "", "")
		tier := fs.String("tier", "quick", "")
		n := fs.Int("n", 200, "")
		fs.Parse(args)
		os.Exit(core.Hashes(*prop, *tier, *n, os.Stdout))
	case "script":
		// print the script of one run index (development aid)
		fs := flag.NewFlagSet("script", flag.ExitOnError)
		prop := fs.String("property", "", "")
		tier := fs.String("tier", "quick", "")
		run := fs.Int("run", 0, "")
		fs.Parse(args)
		p, err := core.Lookup(*prop)
		if err != nil {
			fmt.Fprintln(os.Stderr, err)
			os.Exit(2)
		}
		b, _ := json.Marshal(core.ScriptFor(p, *tier, core.BaseSeed(*tier), *run))
		fmt.Println(string(b))
	case "worker":
		fs := flag.NewFlagSet("worker", flag.ExitOnError)
		var a core.WorkerArgs
		fs.StringVar(&a.Prop, "property", "", "")
		fs.StringVar(&a.Tier, "tier", "quick", "")
		fs.Uint64Var(&a.Seed, "seed", 1, "")
		fs.IntVar(&a.Start, "start", 0, "")
		fs.IntVar(&a.Stride, "stride", 1, "")
		fs.IntVar(&a.Total, "total", 0, "")
		fs.StringVar(&a.Out, "out", "", "")
		fs.StringVar(&a.Journal, "journal", "", "")
		mw := fs.Duration("maxwall", 2*time.Minute, "")
		fs.IntVar(&a.HashCap, "hashcap", 1<<20, "")
		skip := fs.String("skip", "", "")
		fs.Parse(args)
		a.MaxWall = *mw
		a.Skip = map[int]bool{}
		for _, x := range strings.Split(*skip, ",") {
			if v, err := strconv.Atoi(x); err == nil {
				a.Skip[v] = true
			}
		}
		os.Exit(core.Worker(a))
	case "exec-one":
		fs := flag.NewFlagSet("exec-one", flag.ExitOnError)
		file := fs.String("file", "", "")
		journal := fs.String("journal", "", "")
		fs.Parse(args)
		os.Exit(core.ExecOne(*file, *journal))
	default:
		fmt.Fprintln(os.Stderr, "unknown command", cmd)
		os.Exit(2)
	}
}
