package core

import (
	"encoding/hex"
	"encoding/json"
	"fmt"
	"runtime"
	"runtime/metrics"
	"strings"
	"sync/atomic"
)

// Hex is a byte string that marshals to a hex JSON string (scripts stay readable).
type Hex []byte

func (h Hex) MarshalJSON() ([]byte, error) { return json.Marshal(hex.EncodeToString(h)) }
func (h *Hex) UnmarshalJSON(b []byte) error {
	var s string
	if err := json.Unmarshal(b, &s); err != nil {
		return err
	}
	d, err := hex.DecodeString(s)
	if err != nil {
		return err
	}
	*h = d
	return nil
}

// Violation is what an oracle reports. Sig identifies the class of the
// violation (used for known-finding matching and to keep the minimiser on the
// same violation); Clause is the oracle clause, Step the script step.
type Violation struct {
	Clause string `json:"clause"`
	Step   int    `json:"step"`
	Got    string `json:"got"`
	Want   string `json:"want"`
	Sig    string `json:"signature"`
}

func (v *Violation) String() string {
	return fmt.Sprintf("clause=%s step=%d sig=%q got=%s want=%s", v.Clause, v.Step, v.Sig, v.Got, v.Want)
}

// Stats are counters accumulated over the runs of one worker.
type Stats struct {
	Probes map[string]int64 `json:"probes"`
	Faults map[string]int64 `json:"faults"`
	// Units are property-specific totals (packets on the wire, bytes read,
	// simulated ticks, library calls).
	Units map[string]int64 `json:"units"`
}

func NewStats() *Stats {
	return &Stats{Probes: map[string]int64{}, Faults: map[string]int64{}, Units: map[string]int64{}}
}

func (s *Stats) Merge(o *Stats) {
	for k, v := range o.Probes {
		s.Probes[k] += v
	}
	for k, v := range o.Faults {
		s.Faults[k] += v
	}
	for k, v := range o.Units {
		s.Units[k] += v
	}
}

// Ctx is the per-run execution context handed to an executor. It carries the
// event log (hashed, optionally retained), the probe and fault counters and
// the guarded-call wrapper. It holds no randomness and reads no clock.
type Ctx struct {
	stats   *Stats
	hash    uint64
	Keep    bool // retain log lines (replay --verbose, evidence samples)
	Lines   []string
	probed  bool
	faulted bool
	step    int
	viol    *Violation
	// Journal, when set, is called before every guarded library call with
	// the call's name (C05 hang/oom attribution in the parent).
	Journal func(step int, name string)
}

const fnvOff, fnvPrime = 14695981039346656037, 1099511628211

func NewCtx(stats *Stats) *Ctx { return &Ctx{stats: stats, hash: fnvOff} }

// Reset prepares the context for the next run.
func (c *Ctx) Reset() {
	c.hash = fnvOff
	c.Lines = c.Lines[:0]
	c.probed, c.faulted, c.step, c.viol = false, false, 0, nil
}

func (c *Ctx) mixBytes(b []byte) {
	h := c.hash
	for _, x := range b {
		h ^= uint64(x)
		h *= fnvPrime
	}
	c.hash = h
}

func (c *Ctx) mixStr(s string) {
	h := c.hash
	for i := 0; i < len(s); i++ {
		h ^= uint64(s[i])
		h *= fnvPrime
	}
	h ^= 0xff
	h *= fnvPrime
	c.hash = h
}

// Log appends one event to the run's log.
func (c *Ctx) Log(format string, a ...interface{}) {
	if c.Keep {
		c.Lines = append(c.Lines, fmt.Sprintf(format, a...))
	}
	// hash the format and the operands (same in Keep and normal mode)
	c.mixStr(format)
	for _, x := range a {
		switch v := x.(type) {
		case int:
			c.mixU(uint64(v))
		case int64:
			c.mixU(uint64(v))
		case uint64:
			c.mixU(v)
		case uint8:
			c.mixU(uint64(v))
		case bool:
			if v {
				c.mixU(1)
			} else {
				c.mixU(0)
			}
		case string:
			c.mixStr(v)
		case []byte:
			c.mixBytes(v)
			c.mixU(uint64(len(v)))
		case Hex:
			c.mixBytes(v)
			c.mixU(uint64(len(v)))
		case error:
			if v == nil {
				c.mixStr("<nil>")
			} else {
				c.mixStr(v.Error())
			}
		case nil:
			c.mixStr("<nil>")
		default:
			c.mixStr(fmt.Sprint(v))
		}
	}
}

func (c *Ctx) mixU(v uint64) {
	h := c.hash
	for i := 0; i < 8; i++ {
		h ^= v & 0xff
		h *= fnvPrime
		v >>= 8
	}
	c.hash = h
}

// Hash is the FNV-1a hash of the event log so far.
func (c *Ctx) Hash() uint64 { return c.hash }

// Probe records that a condition of interest was reached.
func (c *Ctx) Probe(name string) {
	c.stats.Probes[name]++
	c.probed = true
}

// Fault records that a fault actually fired.
func (c *Ctx) Fault(kind string) {
	c.stats.Faults[kind]++
	c.faulted = true
}

func (c *Ctx) Unit(name string, n int64) { c.stats.Units[name] += n }

func (c *Ctx) Probed() bool  { return c.probed }
func (c *Ctx) Faulted() bool { return c.faulted }

// SetStep tells the context which script step is executing.
func (c *Ctx) SetStep(i int) { c.step = i }
func (c *Ctx) Step() int     { return c.step }

// Fail records the first violation of the run.
func (c *Ctx) Fail(clause, sig string, got, want interface{}) *Violation {
	if c.viol == nil {
		c.viol = &Violation{Clause: clause, Step: c.step, Got: trunc(fmt.Sprint(got)), Want: trunc(fmt.Sprint(want)), Sig: sig}
		c.Log("VIOLATION %s %s", clause, sig)
	}
	return c.viol
}

func (c *Ctx) Violation() *Violation { return c.viol }
func (c *Ctx) Failed() bool          { return c.viol != nil }

func trunc(s string) string {
	if len(s) > 600 {
		return s[:600] + "…"
	}
	return s
}

const gotsPrefix = "github.com/Comcast/gots/v2"

// Call runs one library call guarded against panics. A panic is a violation of
// the running property (clause "no_panic") attributed to the innermost gots
// frame. It returns false when the call panicked.
func (c *Ctx) Call(name string, f func()) (ok bool) {
	atomic.AddUint64(&progress, 1)
	if c.Journal != nil {
		c.Journal(c.step, name)
	}
	defer func() {
		if r := recover(); r != nil {
			ok = false
			frame := topGotsFrame()
			kind := panicKind(r)
			c.Fail("no_panic", "panic:"+name+":"+frame+":"+kind, fmt.Sprintf("panic in %s at %s: %v", name, frame, r), "a value or an error")
		}
	}()
	f()
	return true
}

// Tick tells the watchdog that a long call is alive (used by harness parties that are called
// back millions of times inside one library call).
func (c *Ctx) Tick() { atomic.AddUint64(&progress, 1) }

func panicKind(r interface{}) string {
	s := fmt.Sprint(r)
	switch {
	case strings.Contains(s, "index out of range"):
		return "index"
	case strings.Contains(s, "slice bounds out of range"):
		return "slice"
	case strings.Contains(s, "nil pointer"):
		return "nil"
	case strings.Contains(s, "makeslice"):
		return "makeslice"
	case strings.Contains(s, "divide"):
		return "divide"
	}
	if len(s) > 40 {
		s = s[:40]
	}
	return s
}

// topGotsFrame returns the function name (without the module prefix) of the
// innermost library frame on the panicking stack. Line numbers are left out so
// that a signature is stable under unrelated edits.
func topGotsFrame() string {
	pcs := make([]uintptr, 64)
	n := runtime.Callers(3, pcs)
	frames := runtime.CallersFrames(pcs[:n])
	for {
		fr, more := frames.Next()
		if strings.HasPrefix(fr.Function, gotsPrefix) {
			return strings.TrimPrefix(fr.Function, gotsPrefix)
		}
		if !more {
			break
		}
	}
	return "?"
}

var allocSample = []metrics.Sample{{Name: "/gc/heap/allocs:bytes"}}

// HeapAllocs returns the cumulative bytes allocated on the heap by this
// process (cheap: no stop-the-world). Workers are effectively single
// threaded, so a delta around a call is that call's allocation.
func HeapAllocs() uint64 {
	metrics.Read(allocSample)
	if allocSample[0].Value.Kind() == metrics.KindUint64 {
		return allocSample[0].Value.Uint64()
	}
	return 0
}
