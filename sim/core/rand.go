// Package core is the property-independent part of the simulator: the PRNG the
// generators draw from, the execution context (event log, probes, fault
// counters, guarded library calls), the worker/merger, the minimiser and the
// evidence writer.
package core

// Rand is xoshiro256** seeded through splitmix64. It is the harness's own
// generator so that a seed means the same script on every Go release.
// Only generators draw from it; executors never do.
type Rand struct{ s [4]uint64 }

func splitmix(x *uint64) uint64 {
	*x += 0x9E3779B97F4A7C15
	z := *x
	z = (z ^ (z >> 30)) * 0xBF58476D1CE4E5B9
	z = (z ^ (z >> 27)) * 0x94D049BB133111EB
	return z ^ (z >> 31)
}

// Mix derives a sub-seed from a seed and any number of integers.
func Mix(seed uint64, parts ...uint64) uint64 {
	x := seed
	h := splitmix(&x)
	for _, p := range parts {
		x ^= p * 0xD6E8FEB86659FD93
		h ^= splitmix(&x)
		x = h
	}
	return h
}

// StrSeed folds a short string (a property id) into an integer.
func StrSeed(s string) uint64 {
	h := uint64(1469598103934665603)
	for i := 0; i < len(s); i++ {
		h ^= uint64(s[i])
		h *= 1099511628211
	}
	return h
}

func NewRand(seed uint64) *Rand {
	r := &Rand{}
	x := seed
	for i := range r.s {
		r.s[i] = splitmix(&x)
	}
	return r
}

func rotl(x uint64, k uint) uint64 { return (x << k) | (x >> (64 - k)) }

func (r *Rand) U64() uint64 {
	res := rotl(r.s[1]*5, 7) * 9
	t := r.s[1] << 17
	r.s[2] ^= r.s[0]
	r.s[3] ^= r.s[1]
	r.s[1] ^= r.s[2]
	r.s[0] ^= r.s[3]
	r.s[2] ^= t
	r.s[3] = rotl(r.s[3], 45)
	return res
}

// Intn returns a value in [0,n). n<=0 yields 0.
func (r *Rand) Intn(n int) int {
	if n <= 1 {
		return 0
	}
	return int(r.U64() % uint64(n))
}

// Range returns a value in [lo,hi].
func (r *Rand) Range(lo, hi int) int {
	if hi <= lo {
		return lo
	}
	return lo + r.Intn(hi-lo+1)
}

func (r *Rand) Bool() bool { return r.U64()&1 == 1 }

// Chance is true with probability num/den.
func (r *Rand) Chance(num, den int) bool { return r.Intn(den) < num }

func (r *Rand) Byte() byte { return byte(r.U64()) }

func (r *Rand) Bytes(n int) []byte {
	b := make([]byte, n)
	for i := 0; i < n; {
		v := r.U64()
		for k := 0; k < 8 && i < n; k++ {
			b[i] = byte(v)
			v >>= 8
			i++
		}
	}
	return b
}

// Pick returns one of the given ints.
func (r *Rand) Pick(xs ...int) int { return xs[r.Intn(len(xs))] }

// PickS returns one of the given strings.
func (r *Rand) PickS(xs ...string) string { return xs[r.Intn(len(xs))] }

// Perm returns a permutation of 0..n-1.
func (r *Rand) Perm(n int) []int {
	p := make([]int, n)
	for i := range p {
		p[i] = i
	}
	for i := n - 1; i > 0; i-- {
		j := r.Intn(i + 1)
		p[i], p[j] = p[j], p[i]
	}
	return p
}

// Pick64 returns one of the given values. (All arguments are evaluated by the caller first,
// so the number of PRNG draws does not depend on which one is picked.)
func (r *Rand) Pick64(xs ...uint64) uint64 { return xs[r.Intn(len(xs))] }
