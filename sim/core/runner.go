package core

import (
	"bufio"
	"bytes"
	"crypto/sha256"
	"encoding/binary"
	"encoding/json"
	"fmt"
	"io"
	"os"
	"os/exec"
	"path/filepath"
	"runtime"
	"runtime/metrics"
	"sort"
	"strconv"
	"strings"
	"sync/atomic"
	"syscall"
	"time"
)

// ---------------------------------------------------------------------------
// configuration from the environment

func VerifDir() string {
	if d := os.Getenv("VERIF_DIR"); d != "" {
		return d
	}
	return "/verif"
}

func RepoDir() string {
	if d := os.Getenv("VERIF_REPO"); d != "" {
		return d
	}
	return "/repo"
}

func BaseSeed(tier string) uint64 {
	if s := os.Getenv("VERIF_SEED"); s != "" {
		if v, err := strconv.ParseInt(s, 0, 64); err == nil {
			return uint64(v)
		}
		if v, err := strconv.ParseUint(s, 0, 64); err == nil {
			return v
		}
	}
	if tier == "thorough" {
		return 20261002
	}
	return 1
}

func workers() int {
	if s := os.Getenv("VERIF_WORKERS"); s != "" {
		if v, err := strconv.Atoi(s); err == nil && v > 0 {
			return v
		}
	}
	n := runtime.NumCPU()
	if n > 16 {
		n = 16
	}
	return n
}

func runsFor(p Property, tier string) int {
	n := p.Info().Runs[tier]
	if s := os.Getenv("VERIF_RUNS"); s != "" {
		if v, err := strconv.Atoi(s); err == nil && v >= 0 {
			n = v
		}
	}
	return n
}

// TreeID hashes the non-test Go sources of the repository under test.
func TreeID() string {
	var files []string
	filepath.Walk(RepoDir(), func(path string, info os.FileInfo, err error) error {
		if err != nil {
			return nil
		}
		if info.IsDir() && info.Name() == ".git" {
			return filepath.SkipDir
		}
		if strings.HasSuffix(path, ".go") && !strings.HasSuffix(path, "_test.go") {
			files = append(files, path)
		}
		return nil
	})
	sort.Strings(files)
	h := sha256.New()
	for _, f := range files {
		b, err := os.ReadFile(f)
		if err != nil {
			continue
		}
		fmt.Fprintf(h, "%s %d\n", strings.TrimPrefix(f, RepoDir()), len(b))
		h.Write(b)
	}
	return fmt.Sprintf("%x", h.Sum(nil))[:16]
}

// ---------------------------------------------------------------------------
// known findings

type Finding struct {
	Property  string `json:"property"`
	Status    string `json:"status"` // "known" | "fixed"
	Signature string `json:"signature"`
	What      string `json:"what"`
	Commit    string `json:"commit,omitempty"`
}

type findingsFile struct {
	Findings []Finding `json:"findings"`
}

func LoadFindings() ([]Finding, error) {
	b, err := os.ReadFile(filepath.Join(VerifDir(), "known_findings.json"))
	if err != nil {
		if os.IsNotExist(err) {
			return nil, nil
		}
		return nil, err
	}
	var f findingsFile
	if err := json.Unmarshal(b, &f); err != nil {
		return nil, err
	}
	return f.Findings, nil
}

// knownMatch returns the known (never a fixed) finding matching a signature.
func knownMatch(fs []Finding, prop, sig string) *Finding {
	for i := range fs {
		f := &fs[i]
		if f.Property != prop || f.Status != "known" {
			continue
		}
		if f.Signature == sig {
			return f
		}
		if strings.HasSuffix(f.Signature, "*") && strings.HasPrefix(sig, strings.TrimSuffix(f.Signature, "*")) {
			return f
		}
	}
	return nil
}

// ---------------------------------------------------------------------------
// replay files

type ReplayFile struct {
	Property   string          `json:"property"`
	Tier       string          `json:"tier"`
	Seed       uint64          `json:"seed"`
	Run        int             `json:"run"`
	Script     json.RawMessage `json:"script"`
	Violation  *Violation      `json:"violation"`
	LogHash    string          `json:"log_hash"`
	TreeID     string          `json:"gots_tree_id"`
	OrigSize   int             `json:"original_size"`
	MinSize    int             `json:"minimised_size"`
	ShrinkExec int             `json:"shrink_executions"`
	Fatal      string          `json:"fatal,omitempty"`
	// Prelude: scripts executed (verdicts ignored) in the same fresh process before Script.
	// Empty for every library whose behaviour depends only on its arguments; needed when the
	// library keeps package-level state (a pool, a cache) that an earlier run leaves behind.
	Prelude []json.RawMessage `json:"prelude,omitempty"`
}

func writeReplay(p Property, tier string, seed uint64, run int, script interface{}, v *Violation, hash uint64, orig, execs int, fatal string, prelude ...json.RawMessage) string {
	raw, _ := json.Marshal(script)
	rf := ReplayFile{Property: p.ID(), Tier: tier, Seed: seed, Run: run, Script: raw, Violation: v,
		LogHash: fmt.Sprintf("%016x", hash), TreeID: TreeID(), OrigSize: orig, MinSize: p.Size(script), ShrinkExec: execs, Fatal: fatal, Prelude: prelude}
	dir := filepath.Join(VerifDir(), "replays")
	os.MkdirAll(dir, 0o755)
	sh := sha256.Sum256([]byte(v.Sig))
	name := fmt.Sprintf("%s-%d-%d-%x.json", p.ID(), seed, run, sh[:4])
	path := filepath.Join(dir, name)
	b, _ := json.MarshalIndent(rf, "", " ")
	os.WriteFile(path, b, 0o644)
	return path
}

func LoadReplay(path string) (*ReplayFile, Property, interface{}, error) {
	b, err := os.ReadFile(path)
	if err != nil {
		return nil, nil, nil, err
	}
	var rf ReplayFile
	if err := json.Unmarshal(b, &rf); err != nil {
		return nil, nil, nil, err
	}
	p, err := Lookup(rf.Property)
	if err != nil {
		return nil, nil, nil, err
	}
	s := p.New()
	if err := json.Unmarshal(rf.Script, s); err != nil {
		return nil, nil, nil, err
	}
	return &rf, p, s, nil
}

// runPrelude executes the prelude scripts of a replay file, ignoring their verdicts.
func runPrelude(p Property, rf *ReplayFile) {
	for _, raw := range rf.Prelude {
		s := p.New()
		if json.Unmarshal(raw, s) == nil {
			RunOnce(p, s, false)
		}
	}
}

// Replay executes a replay file in this (fresh) process.
// exit 1: the recorded violation reproduces exactly (prints VIOLATION line)
// exit 0: no violation on this tree and the tree differs from the recorded one
// exit 3: does not reproduce on the recorded tree / reproduces differently
func Replay(path string, verbose bool) int {
	rf, p, script, err := LoadReplay(path)
	if err != nil {
		fmt.Fprintln(os.Stderr, "replay:", err)
		return 2
	}
	runtime.GOMAXPROCS(1)
	startWatchdog(nil)
	runPrelude(p, rf)
	v, hash, lines := RunOnce(p, script, verbose)
	if verbose {
		for _, l := range lines {
			fmt.Println("  |", l)
		}
	}
	hs := fmt.Sprintf("%016x", hash)
	if v == nil {
		if rf.TreeID != TreeID() {
			fmt.Printf("replay: no violation on this tree (recorded on tree %s, now %s)\n", rf.TreeID, TreeID())
			return 0
		}
		fmt.Printf("NOT-REPRODUCED property=%s replay=%s\n", rf.Property, path)
		return 3
	}
	fmt.Printf("replay: %s log_hash=%s\n", v, hs)
	if rf.Violation != nil && (v.Sig != rf.Violation.Sig || v.Step != rf.Violation.Step || (hs != rf.LogHash && rf.TreeID == TreeID())) {
		fmt.Printf("REPRODUCED-DIFFERENTLY property=%s replay=%s recorded=%q@%d/%s\n", rf.Property, path, rf.Violation.Sig, rf.Violation.Step, rf.LogHash)
		if rf.TreeID == TreeID() {
			return 3
		}
	}
	fmt.Printf("VIOLATION property=%s replay=%s\n", rf.Property, path)
	return 1
}

// ---------------------------------------------------------------------------
// journal (crash-safe, syscall-free): an mmapped page the worker updates

type journal struct {
	mem []byte
}

const journalSize = 4096

func openJournal(path string) *journal {
	f, err := os.OpenFile(path, os.O_RDWR|os.O_CREATE, 0o644)
	if err != nil {
		return nil
	}
	defer f.Close()
	f.Truncate(journalSize)
	mem, err := syscall.Mmap(int(f.Fd()), 0, journalSize, syscall.PROT_READ|syscall.PROT_WRITE, syscall.MAP_SHARED)
	if err != nil {
		return nil
	}
	return &journal{mem: mem}
}

// layout: [0:8] run index+1, [8:16] step, [16:24] call counter, [24] name len, [25:] name; [512:] status text
func (j *journal) setRun(idx int) {
	binary.LittleEndian.PutUint64(j.mem[0:], uint64(idx+1))
	binary.LittleEndian.PutUint64(j.mem[8:], 0)
	j.mem[24] = 0
}

func (j *journal) setCall(step int, name string) {
	binary.LittleEndian.PutUint64(j.mem[8:], uint64(step))
	n := len(name)
	if n > 200 {
		n = 200
	}
	copy(j.mem[25:], name[:n])
	j.mem[24] = byte(n)
}

func (j *journal) setStatus(s string) {
	if len(s) > 1000 {
		s = s[:1000]
	}
	copy(j.mem[514:], s)
	binary.LittleEndian.PutUint16(j.mem[512:], uint16(len(s)))
}

type journalState struct {
	Run    int
	Step   int
	Call   string
	Status string
}

func readJournal(path string) journalState {
	b, err := os.ReadFile(path)
	if err != nil || len(b) < journalSize {
		return journalState{Run: -1}
	}
	js := journalState{Run: int(binary.LittleEndian.Uint64(b[0:])) - 1, Step: int(binary.LittleEndian.Uint64(b[8:]))}
	js.Call = string(b[25 : 25+int(b[24])])
	n := int(binary.LittleEndian.Uint16(b[512:]))
	if n > 1000 {
		n = 1000
	}
	js.Status = string(b[514 : 514+n])
	return js
}

// ---------------------------------------------------------------------------
// watchdog inside a worker: a stalled or exploding library call ends the
// process with a distinctive exit code; the parent confirms by replay.

var progress uint64 // bumped at every run start and every guarded call

const (
	exitHang = 97
	exitMem  = 98
	// a single library call normally takes microseconds
	memLimit = 1 << 30
)

// hangAfter is the no-progress time after which a library call counts as hung.
// Verdicts use 10 s; candidates tried by the minimiser of a fatal failure use
// GOTSIM_HANG_MS (a wrong guess there only costs minimisation quality: the
// minimised script is confirmed again with the full threshold).
var hangAfter = func() time.Duration {
	if s := os.Getenv("GOTSIM_HANG_MS"); s != "" {
		if v, err := strconv.Atoi(s); err == nil && v > 0 {
			return time.Duration(v) * time.Millisecond
		}
	}
	return 10 * time.Second
}()

func startWatchdog(j *journal) {
	go func() {
		last := atomic.LoadUint64(&progress)
		parent := os.Getppid()
		samples := []metrics.Sample{{Name: "/memory/classes/heap/objects:bytes"}}
		// A hang is counted in watchdog ticks without progress, not in wall-clock time: when the
		// whole machine is frozen for a while (a snapshot of the VM, a suspended container) the
		// clock jumps but only one tick passes, and that must not look like a hung call.
		const tick = 50 * time.Millisecond
		need := int(hangAfter / tick)
		stalled := 0
		for {
			time.Sleep(tick)
			if os.Getppid() != parent {
				os.Exit(3) // the process that started us is gone: nobody reads our result
			}
			cur := atomic.LoadUint64(&progress)
			if cur != last {
				last, stalled = cur, 0
			} else if stalled++; stalled >= need {
				if j != nil {
					j.setStatus("HANG")
				}
				fmt.Fprintln(os.Stderr, "watchdog: HANG (no progress for", hangAfter, ")")
				os.Exit(exitHang)
			}
			metrics.Read(samples)
			if samples[0].Value.Kind() == metrics.KindUint64 && samples[0].Value.Uint64() > memLimit {
				if j != nil {
					j.setStatus("MEM")
				}
				fmt.Fprintln(os.Stderr, "watchdog: MEM (live heap above", memLimit, "bytes)")
				os.Exit(exitMem)
			}
		}
	}()
}

// ---------------------------------------------------------------------------
// worker

type Found struct {
	Sig     string     `json:"sig"`
	Run     int        `json:"run"`
	Replay  string     `json:"replay"`
	Viol    *Violation `json:"violation"`
	Count   int64      `json:"count"`
	Orig    int        `json:"orig_size"`
	Min     int        `json:"min_size"`
	Fatal   string     `json:"fatal,omitempty"`
	IsKnown bool       `json:"is_known"`
	What    string     `json:"what,omitempty"`
}

type Sample struct {
	Kind   string          `json:"kind"`
	Run    int             `json:"run"`
	Script json.RawMessage `json:"script"`
	Size   int             `json:"size"`
}

type WorkerResult struct {
	Runs       int64             `json:"runs"`
	SweepRuns  int64             `json:"sweep_runs"`
	FaultFree  int64             `json:"fault_free_runs"`
	ProbedRuns int64             `json:"probed_runs"`
	ViolRuns   int64             `json:"violating_runs"`
	Stats      *Stats            `json:"stats"`
	Found      map[string]*Found `json:"found"`
	Samples    []Sample          `json:"samples"`
	HashFile   string            `json:"hash_file"`
	HashCapped bool              `json:"hash_capped"`
	WallS      float64           `json:"wall_s"`
	Truncated  bool              `json:"truncated"`
	NextIdx    int               `json:"next_idx"` // first run index not covered by this (partial) result
	Final      bool              `json:"final"`
}

type WorkerArgs struct {
	Prop    string
	Tier    string
	Seed    uint64
	Start   int
	Stride  int
	Total   int // total run indices (sweep + random)
	Out     string
	Journal string
	MaxWall time.Duration
	HashCap int
	Skip    map[int]bool // run indices known to kill the process (confirmed by the parent)
}

// ScriptFor regenerates the script of run index idx (sweep cases first).
func ScriptFor(p Property, tier string, seed uint64, idx int) interface{} {
	sw := p.SweepSize(tier)
	if idx < sw {
		return p.SweepCase(tier, idx)
	}
	return p.Gen(NewRand(Mix(seed, StrSeed(p.ID()), uint64(idx))), tier)
}

func Worker(a WorkerArgs) int {
	p, err := Lookup(a.Prop)
	if err != nil {
		fmt.Fprintln(os.Stderr, err)
		return 2
	}
	known, err := LoadFindings()
	if err != nil {
		fmt.Fprintln(os.Stderr, "known_findings.json:", err)
		return 2
	}
	runtime.GOMAXPROCS(1) // one P: sync.Pool and scheduling inside the library behave the same in every process
	j := openJournal(a.Journal)
	iso := p.Info().Isolated
	// every worker runs under the watchdog and journals each library call: a call that never
	// returns, or that eats the machine's memory, kills the worker, and the parent confirms
	// and reports it (a check must never hang with the code it checks)
	startWatchdog(j)
	res := &WorkerResult{Stats: NewStats(), Found: map[string]*Found{}}
	c := NewCtx(res.Stats)
	if j != nil {
		c.Journal = func(step int, name string) {
			j.setCall(step, name)
		}
	}
	hashes := make([]uint64, 0, 1<<16)
	const ringN = 64
	var ring [ringN]interface{} // the scripts of the last runs of this process (circular)
	ringPos := 0
	tmpDir := a.Out // used as a per-worker path prefix for child-process files
	sweep := p.SweepSize(a.Tier)
	t0 := time.Now()
	var longest, faulted *Sample
	minimised := 0
	lastCkpt := time.Now()
	for idx := a.Start; idx < a.Total; idx += a.Stride {
		if res.Runs&0xff == 0 {
			if a.MaxWall > 0 && time.Since(t0) > a.MaxWall {
				res.Truncated = true
				break
			}
			if (iso && time.Since(lastCkpt) > 2*time.Second) || time.Since(lastCkpt) > 5*time.Second {
				res.NextIdx = idx
				res.WallS = time.Since(t0).Seconds()
				writeWorkerResult(a, res, hashes)
				lastCkpt = time.Now()
			}
		}
		if a.Skip[idx] {
			continue
		}
		script := ScriptFor(p, a.Tier, a.Seed, idx)
		if j != nil {
			j.setRun(idx)
		}
		atomic.AddUint64(&progress, 1)
		c.Reset()
		p.Exec(script, c)
		res.Runs++
		if idx < sweep {
			res.SweepRuns++
		}
		if !c.Faulted() {
			res.FaultFree++
		}
		if c.Probed() {
			res.ProbedRuns++
			if len(hashes) < a.HashCap {
				hashes = append(hashes, c.Hash())
			} else {
				res.HashCapped = true
			}
		}
		// samples: first, a faulted one, the longest (of the first 4096 runs of this worker)
		if res.Runs == 1 && a.Start == 0 {
			raw, _ := json.Marshal(script)
			res.Samples = append(res.Samples, Sample{Kind: "first", Run: idx, Script: raw, Size: p.Size(script)})
		}
		if res.Runs <= 4096 {
			if faulted == nil && c.Faulted() && c.Violation() == nil {
				raw, _ := json.Marshal(script)
				faulted = &Sample{Kind: "faulted", Run: idx, Script: raw, Size: p.Size(script)}
			}
			if sz := p.Size(script); c.Violation() == nil && (longest == nil || sz > longest.Size) {
				raw, _ := json.Marshal(script)
				longest = &Sample{Kind: "longest", Run: idx, Script: raw, Size: sz}
			}
		}
		// the runs that preceded this one in this process (oldest first), materialised lazily
		prevScriptsFn := func() []interface{} {
			out := make([]interface{}, 0, ringN)
			for k := 0; k < ringN; k++ {
				if x := ring[(ringPos+k)%ringN]; x != nil {
					out = append(out, x)
				}
			}
			return out
		}
		var prevScripts []interface{}
		if !iso && c.Violation() != nil {
			prevScripts = prevScriptsFn()
		}
		if !iso {
			ring[ringPos] = script
			ringPos = (ringPos + 1) % ringN
		}
		if v := c.Violation(); v != nil {
			res.ViolRuns++
			f := res.Found[v.Sig]
			if f != nil {
				f.Count++
				continue
			}
			f = &Found{Sig: v.Sig, Run: idx, Viol: v, Count: 1}
			if k := knownMatch(known, p.ID(), v.Sig); k != nil {
				f.IsKnown = true
				f.What = k.What
			}
			res.Found[v.Sig] = f
			orig := p.Size(script)
			// Every reported violation must reproduce from a FRESH process. If it only does so
			// after some of the preceding runs of this process, the library keeps package-level
			// state (a pool, a cache): the shortest sufficient tail of those runs becomes the
			// replay file's prelude.
			if !iso {
				if fv, _ := runIsolatedHang(p, script, tmpDir, 0); fv == nil || fv.Sig != v.Sig {
					var prelude []json.RawMessage
					found := false
					recent := make([]json.RawMessage, len(prevScripts))
					for i, rs := range prevScripts {
						recent[i], _ = json.Marshal(rs)
					}
					for _, k := range []int{1, 2, 4, 8, 16, 32, 64} {
						if k > len(recent) {
							k = len(recent)
						}
						if k == 0 {
							break
						}
						cand := recent[len(recent)-k:]
						if pv, _ := runIsolatedHang(p, script, tmpDir, 0, cand...); pv != nil && pv.Sig == v.Sig {
							prelude, found = append([]json.RawMessage(nil), cand...), true
							break
						}
					}
					if !found {
						// further back: what an earlier run left in the library may be much older
						// than the last 64 runs. The runs of this process are a function of their
						// indices, so they are regenerated (oldest first), in growing tails.
						for _, k := range []int{512, 4096, 32768, 131072} {
							var cand []json.RawMessage
							for j := idx - a.Stride; j >= a.Start && len(cand) < k; j -= a.Stride {
								if a.Skip[j] {
									continue
								}
								raw, _ := json.Marshal(ScriptFor(p, a.Tier, a.Seed, j))
								cand = append(cand, raw)
							}
							for i, j := 0, len(cand)-1; i < j; i, j = i+1, j-1 {
								cand[i], cand[j] = cand[j], cand[i]
							}
							atomic.AddUint64(&progress, 1)
							if pv, _ := runIsolatedHang(p, script, tmpDir, 0, cand...); pv != nil && pv.Sig == v.Sig {
								prelude, found = cand, true
								break
							}
							if len(cand) < k {
								break // that was the whole history of this process
							}
						}
					}
					if found {
						// drop prelude scripts that are not needed: in halving chunks, then one by one
						for chunk := (len(prelude) + 1) / 2; chunk >= 1; {
							removed := false
							for i := 0; i+chunk <= len(prelude); {
								cand := append(append([]json.RawMessage(nil), prelude[:i]...), prelude[i+chunk:]...)
								atomic.AddUint64(&progress, 1)
								if pv, _ := runIsolatedHang(p, script, tmpDir, 0, cand...); pv != nil && pv.Sig == v.Sig {
									prelude, removed = cand, true
								} else {
									i += chunk
								}
							}
							if chunk == 1 {
								if !removed {
									break
								}
								continue
							}
							chunk /= 2
						}
						f.Viol = v
						f.Orig, f.Min = orig, p.Size(script)
						f.Replay = writeReplay(p, a.Tier, a.Seed, idx, script, v, c.Hash(), orig, 0, "", prelude...)
						res.Stats.Units["violations_needing_prelude"]++
						continue
					}
					if strings.HasPrefix(v.Sig, "alloc:") || strings.HasPrefix(v.Sig, "stress_alloc:") || strings.HasPrefix(v.Sig, "alloc_small_multiple:") {
						delete(res.Found, v.Sig)
						res.ViolRuns--
						res.Stats.Units["alloc_borderline_unreproduced"]++
						continue
					}
					fmt.Fprintf(os.Stderr, "worker: run %d violation %q reproduces neither alone nor after the preceding %d runs in a fresh process: not deterministic\n", idx, v.Sig, len(prevScripts))
					return 2
				}
			}
			// minimise and write the replay file (bounded effort per worker)
			min, execs := script, 0
			if minimised < 12 {
				minimised++
				min, execs = Minimise(p, Clone(p, script), v.Sig, 4000)
				if !iso {
					// the minimised script must itself reproduce from a fresh process
					if fv, _ := runIsolatedHang(p, min, tmpDir, 0); fv == nil || fv.Sig != v.Sig {
						min, execs = script, 0
					}
				}
			}
			mv, mh, _ := RunOnce(p, min, false)
			if mv == nil || mv.Sig != v.Sig {
				// must not happen (executor is deterministic); keep the original
				min = script
				mv, mh, _ = RunOnce(p, min, false)
				if mv == nil && (strings.HasPrefix(v.Sig, "alloc:") || strings.HasPrefix(v.Sig, "alloc_small_multiple:")) {
					// allocation accounting is exact only to within a couple of MiB; a call
					// that crossed the (generous) bound by less than that is not reported
					delete(res.Found, v.Sig)
					res.ViolRuns--
					res.Stats.Units["alloc_borderline_unreproduced"]++
					continue
				}
				if mv == nil {
					fmt.Fprintf(os.Stderr, "worker: run %d violation %q does not re-execute: executor is not deterministic\n", idx, v.Sig)
					return 2
				}
			}
			f.Viol = mv
			f.Orig, f.Min = orig, p.Size(min)
			f.Replay = writeReplay(p, a.Tier, a.Seed, idx, min, mv, mh, orig, execs, "")
		}
	}
	if faulted != nil {
		res.Samples = append(res.Samples, *faulted)
	}
	if longest != nil {
		res.Samples = append(res.Samples, *longest)
	}
	res.WallS = time.Since(t0).Seconds()
	res.NextIdx = a.Total
	res.Final = true
	if err := writeWorkerResult(a, res, hashes); err != nil {
		fmt.Fprintln(os.Stderr, err)
		return 2
	}
	return 0
}

// writeWorkerResult writes the (partial or final) result and the distinct
// log hashes seen so far; the write is atomic (rename).
func writeWorkerResult(a WorkerArgs, res *WorkerResult, hashes []uint64) error {
	hs := append([]uint64(nil), hashes...)
	sort.Slice(hs, func(i, k int) bool { return hs[i] < hs[k] })
	hf := a.Out + ".hashes"
	buf := make([]byte, 0, len(hs)*8)
	var prev uint64
	for i, h := range hs {
		if i > 0 && h == prev {
			continue
		}
		prev = h
		buf = binary.LittleEndian.AppendUint64(buf, h)
	}
	if err := os.WriteFile(hf+".tmp", buf, 0o644); err != nil {
		return err
	}
	os.Rename(hf+".tmp", hf)
	res.HashFile = hf
	b, _ := json.Marshal(res)
	if err := os.WriteFile(a.Out+".tmp", b, 0o644); err != nil {
		return err
	}
	return os.Rename(a.Out+".tmp", a.Out)
}

// ---------------------------------------------------------------------------
// exec-one: execute one script (from a replay-format file) under the watchdog
// and print the outcome. Used by the parent to confirm and minimise fatal
// failures (which cannot be recovered in-process).

type oneOutcome struct {
	Viol *Violation `json:"violation"`
	Hash string     `json:"log_hash"`
}

func ExecOne(path, journalPath string) int {
	rf, p, script, err := LoadReplay(path)
	if err != nil {
		fmt.Fprintln(os.Stderr, err)
		return 2
	}
	runtime.GOMAXPROCS(1) // one P: sync.Pool and scheduling inside the library behave the same in every process
	j := openJournal(journalPath)
	startWatchdog(j)
	runPrelude(p, rf)
	st := NewStats()
	c := NewCtx(st)
	if j != nil {
		j.setRun(0)
		c.Journal = func(step int, name string) {
			atomic.AddUint64(&progress, 1)
			j.setCall(step, name)
		}
	}
	p.Exec(script, c)
	b, _ := json.Marshal(oneOutcome{Viol: c.Violation(), Hash: fmt.Sprintf("%016x", c.Hash())})
	fmt.Println(string(b))
	return 0
}

// runIsolated executes a script in a child process. It returns the in-process
// violation (if the child survived) or a synthesised fatal violation.
func runIsolated(p Property, script interface{}, dir string) (*Violation, string) {
	return runIsolatedHang(p, script, dir, 0)
}

func runIsolatedHang(p Property, script interface{}, dir string, hangMS int, prelude ...json.RawMessage) (*Violation, string) {
	raw, _ := json.Marshal(script)
	rf := ReplayFile{Property: p.ID(), Script: raw, Prelude: prelude}
	b, _ := json.Marshal(rf)
	// dir is a directory (parent process) or a per-worker path prefix (workers run concurrently)
	f := filepath.Join(dir, "one.json")
	jf := filepath.Join(dir, "one.journal")
	if st, err := os.Stat(dir); err != nil || !st.IsDir() {
		f, jf = dir+".one.json", dir+".one.journal"
	}
	os.Remove(jf)
	os.WriteFile(f, b, 0o644)
	cmd := exec.Command(os.Args[0], "exec-one", "--file", f, "--journal", jf)
	if hangMS > 0 {
		cmd.Env = append(os.Environ(), "GOTSIM_HANG_MS="+strconv.Itoa(hangMS))
	}
	var out, errb bytes.Buffer
	cmd.Stdout, cmd.Stderr = &out, &errb
	// the child has its own watchdog; while we wait for it we are alive
	stop := make(chan struct{})
	go func() {
		t := time.NewTicker(500 * time.Millisecond)
		defer t.Stop()
		for {
			select {
			case <-stop:
				return
			case <-t.C:
				atomic.AddUint64(&progress, 1)
			}
		}
	}()
	err := cmd.Run()
	close(stop)
	if err == nil {
		var o oneOutcome
		if json.Unmarshal(bytes.TrimSpace(out.Bytes()), &o) == nil {
			return o.Viol, ""
		}
		return nil, ""
	}
	js := readJournal(jf)
	return fatalViolation(js, errb.String(), cmd.ProcessState.ExitCode()), firstFatalLine(errb.String())
}

func firstFatalLine(stderr string) string {
	for _, l := range strings.Split(stderr, "\n") {
		if strings.HasPrefix(l, "fatal error:") || strings.HasPrefix(l, "panic:") || strings.HasPrefix(l, "watchdog:") || strings.HasPrefix(l, "runtime:") {
			return l
		}
	}
	return ""
}

func fatalViolation(js journalState, stderr string, code int) *Violation {
	kind := "crash"
	switch {
	case code == exitHang || js.Status == "HANG":
		kind = "hang"
	case code == exitMem || js.Status == "MEM" || strings.Contains(stderr, "out of memory") || strings.Contains(stderr, "cannot allocate"):
		kind = "memory"
	case strings.Contains(stderr, "stack exceeds"):
		kind = "stack_overflow"
	}
	clause := "terminates"
	if kind == "memory" {
		clause = "bounded_memory"
	}
	if kind == "crash" || kind == "stack_overflow" {
		clause = "no_panic"
	}
	return &Violation{Clause: clause, Step: js.Step, Sig: "fatal:" + kind + ":" + js.Call,
		Got: fmt.Sprintf("process died (%s, exit %d) inside %s: %s", kind, code, js.Call, firstFatalLine(stderr)), Want: "a value or an error"}
}

// minimiseIsolated is Minimise with one child process per candidate.
func minimiseIsolated(p Property, script interface{}, sig string, dir string, maxExec int, deadline time.Time) (interface{}, int) {
	cur := script
	execs := 0
	for improved := true; improved && execs < maxExec && time.Now().Before(deadline); {
		improved = false
		for _, cand := range p.Shrink(cur) {
			if execs >= maxExec || !time.Now().Before(deadline) {
				break
			}
			execs++
			v, _ := runIsolatedHang(p, cand, dir, 1500)
			if v != nil && v.Sig == sig {
				cur = cand
				improved = true
				break
			}
		}
	}
	return cur, execs
}

// ---------------------------------------------------------------------------
// parent: check

type Evidence struct {
	PropertyID  string                 `json:"property_id"`
	Tier        string                 `json:"tier"`
	Seed        int64                  `json:"seed"`
	Level       string                 `json:"level"`
	Coverage    map[string]interface{} `json:"coverage"`
	Assumptions []string               `json:"assumptions"`
	WallS       float64                `json:"wall_s"`
	Violations  int                    `json:"violations"`
}

func Check(propID, tier string) int {
	p, err := Lookup(propID)
	if err != nil {
		fmt.Fprintln(os.Stderr, err)
		return 2
	}
	info := p.Info()
	seed := BaseSeed(tier)
	known, err := LoadFindings()
	if err != nil {
		fmt.Fprintln(os.Stderr, "known_findings.json:", err)
		return 2
	}
	tree := TreeID()
	nw := workers()
	sweep := p.SweepSize(tier)
	total := sweep + runsFor(p, tier)
	if total < nw {
		nw = 1
	}
	fmt.Printf("gotsim check property=%s tier=%s VERIF_SEED=%d runs=%d (sweep %d + random %d) workers=%d tree=%s\n",
		propID, tier, int64(seed), total, sweep, total-sweep, nw, tree)
	tmp, err := os.MkdirTemp("", "gotsim-"+propID+"-")
	if err != nil {
		fmt.Fprintln(os.Stderr, err)
		return 2
	}
	defer os.RemoveAll(tmp)
	maxWall := 150 * time.Second
	hashCap := 1 << 20
	if tier == "thorough" {
		maxWall = 45 * time.Minute
		hashCap = 1 << 21
	}
	if s := os.Getenv("VERIF_MAXWALL_S"); s != "" {
		if v, err := strconv.Atoi(s); err == nil {
			maxWall = time.Duration(v) * time.Second
		}
	}
	t0 := time.Now()
	type proc struct {
		cmd     *exec.Cmd
		w       int
		start   int
		gen     int
		out     string
		journal string
		stderr  *bytes.Buffer
		err     error
	}
	skip := map[int][]int{} // worker -> run indices confirmed fatal
	launch := func(w, start, gen int) (*proc, error) {
		pr := &proc{w: w, start: start, gen: gen, out: filepath.Join(tmp, fmt.Sprintf("w%d-%d.json", w, gen)),
			journal: filepath.Join(tmp, fmt.Sprintf("w%d-%d.journal", w, gen)), stderr: &bytes.Buffer{}}
		var sk []string
		for _, r := range skip[w] {
			sk = append(sk, strconv.Itoa(r))
		}
		pr.cmd = exec.Command(os.Args[0], "worker", "--property", propID, "--tier", tier, "--seed", strconv.FormatUint(seed, 10),
			"--start", strconv.Itoa(start), "--stride", strconv.Itoa(nw), "--total", strconv.Itoa(total), "--out", pr.out,
			"--journal", pr.journal, "--maxwall", maxWall.String(), "--hashcap", strconv.Itoa(hashCap), "--skip", strings.Join(sk, ","))
		pr.cmd.Stderr = pr.stderr
		pr.cmd.Stdout = os.Stdout
		return pr, pr.cmd.Start()
	}
	merged := &WorkerResult{Stats: NewStats(), Found: map[string]*Found{}}
	infra := false
	var allHashes []uint64
	mergeResult := func(path string) (*WorkerResult, bool) {
		b, err := os.ReadFile(path)
		if err != nil {
			return nil, false
		}
		var r WorkerResult
		if err := json.Unmarshal(b, &r); err != nil {
			return nil, false
		}
		merged.Runs += r.Runs
		merged.SweepRuns += r.SweepRuns
		merged.FaultFree += r.FaultFree
		merged.ProbedRuns += r.ProbedRuns
		merged.ViolRuns += r.ViolRuns
		merged.Stats.Merge(r.Stats)
		merged.Truncated = merged.Truncated || r.Truncated
		merged.HashCapped = merged.HashCapped || r.HashCapped
		merged.Samples = append(merged.Samples, r.Samples...)
		for sig, f := range r.Found {
			if old := merged.Found[sig]; old == nil {
				merged.Found[sig] = f
			} else {
				cnt := old.Count + f.Count
				if f.Run < old.Run {
					merged.Found[sig] = f
				}
				merged.Found[sig].Count = cnt
			}
		}
		if hb, err := os.ReadFile(r.HashFile); err == nil {
			for i := 0; i+8 <= len(hb); i += 8 {
				allHashes = append(allHashes, binary.LittleEndian.Uint64(hb[i:]))
			}
		}
		return &r, true
	}
	var wave []*proc
	for w := 0; w < nw; w++ {
		pr, err := launch(w, w, 0)
		if err != nil {
			fmt.Fprintln(os.Stderr, "cannot start worker:", err)
			return 2
		}
		wave = append(wave, pr)
	}
	fatalBudget := 40 // confirmations of process deaths per batch
	unreproduced := 0
	confirmedDeaths := map[string]string{} // exit code + journal status + call -> confirmed signature
	for len(wave) > 0 {
		for _, pr := range wave {
			pr.err = pr.cmd.Wait()
		}
		var next []*proc
		for _, pr := range wave {
			w := pr.w
			if pr.err == nil {
				if _, ok := mergeResult(pr.out); !ok {
					fmt.Fprintf(os.Stderr, "worker %d result missing or unreadable\n", w)
					infra = true
				}
				continue
			}
			code := pr.cmd.ProcessState.ExitCode()
			// the Go runtime's own fatal errors (stack overflow, out of memory, concurrent map
			// access) also exit with status 2: those are deaths inside a run, not trouble of ours
			runtimeFatal := strings.Contains(pr.stderr.String(), "fatal error:") || strings.Contains(pr.stderr.String(), "runtime: goroutine stack exceeds")
			if code == 2 && !runtimeFatal {
				if !infra { // one stack is enough
					fmt.Fprintf(os.Stderr, "worker %d failed (infrastructure):\n%s\n", w, tail(pr.stderr.String(), 14))
				}
				infra = true
				continue
			}
			// the worker died inside a run: suspected fatal violation
			js := readJournal(pr.journal)
			if js.Run < 0 {
				fmt.Fprintf(os.Stderr, "worker %d died without journal (exit %d):\n%s\n", w, code, tail(pr.stderr.String(), 30))
				infra = true
				continue
			}
			script := ScriptFor(p, tier, seed, js.Run)
			// the same kind of death inside the same call as one already confirmed: count it,
			// do not spend another hang timeout on confirming it
			deathKey := fmt.Sprintf("%d:%s:%s", code, js.Status, js.Call)
			if sig, ok := confirmedDeaths[deathKey]; ok {
				merged.Found[sig].Count++
				merged.ViolRuns++
				from := pr.start
				if r, ok := mergeResult(pr.out); ok && r.NextIdx > from {
					from = r.NextIdx
				}
				if !merged.Found[sig].IsKnown {
					merged.Truncated = true // the verdict is decided; no point in dying again and again
					continue
				}
				skip[w] = append(skip[w], js.Run)
				fatalBudget--
				if fatalBudget <= 0 {
					merged.Truncated = true
					continue
				}
				if np, err := launch(w, from, pr.gen+1); err == nil {
					next = append(next, np)
				} else {
					infra = true
				}
				continue
			}
			fmt.Printf("worker %d died (exit %d) in run %d step %d call %q; confirming in a fresh process\n", w, code, js.Run, js.Step, js.Call)
			v, fatal := runIsolated(p, script, tmp)
			if v != nil && !strings.HasPrefix(v.Sig, "fatal:") {
				// The run that the worker was busy with ends in an ordinary violation when run in
				// a fresh process: the worker found it too and died while minimising it in-process
				// (a simplified script made the changed code hang or blow up). The violation is
				// real and replays; report it, minimised with one child process per candidate.
				if old := merged.Found[v.Sig]; old != nil {
					old.Count++
				} else {
					f := &Found{Sig: v.Sig, Run: js.Run, Viol: v, Count: 1}
					if k := knownMatch(known, propID, v.Sig); k != nil {
						f.IsKnown, f.What = true, k.What
					}
					orig := p.Size(script)
					min, execs := minimiseIsolated(p, Clone(p, script), v.Sig, tmp, 120, time.Now().Add(45*time.Second))
					mv, _ := runIsolated(p, min, tmp)
					if mv == nil || mv.Sig != v.Sig {
						min, mv = script, v
					}
					f.Viol, f.Orig, f.Min = mv, orig, p.Size(min)
					f.Replay = writeReplay(p, tier, seed, js.Run, min, mv, 0, orig, execs, "")
					merged.Found[v.Sig] = f
				}
				merged.ViolRuns++
				mergeResult(pr.out)
				if !merged.Found[v.Sig].IsKnown {
					merged.Truncated = true // the verdict is decided
					continue
				}
				skip[w] = append(skip[w], js.Run)
				fatalBudget--
				if fatalBudget <= 0 {
					merged.Truncated = true
					continue
				}
				if np, err := launch(w, pr.start, pr.gen+1); err == nil {
					next = append(next, np)
				} else {
					infra = true
				}
				continue
			}
			if v == nil {
				// The same script runs to its end in a fresh process: whatever stopped the worker
				// (the machine frozen under it, a kill from outside) was not the code under test
				// and is not reportable. Carry on from its checkpoint; give up (exit 2) only if
				// it keeps happening.
				fmt.Fprintf(os.Stderr, "worker %d death in run %d did not reproduce in a fresh process (got %v); restarting it:\n%s\n", w, js.Run, v, tail(pr.stderr.String(), 6))
				unreproduced++
				merged.Stats.Units["worker_deaths_not_reproduced"]++
				from := pr.start
				if r, ok := mergeResult(pr.out); ok && r.NextIdx > from {
					from = r.NextIdx
				}
				if unreproduced > 3 {
					infra = true
					continue
				}
				if np, err := launch(w, from, pr.gen+1); err == nil {
					next = append(next, np)
				} else {
					infra = true
				}
				continue
			}
			if old := merged.Found[v.Sig]; old != nil {
				old.Count++
			} else {
				f := &Found{Sig: v.Sig, Run: js.Run, Viol: v, Count: 1, Fatal: fatal}
				if k := knownMatch(known, propID, v.Sig); k != nil {
					f.IsKnown, f.What = true, k.What
				}
				orig := p.Size(script)
				min, execs := minimiseIsolated(p, Clone(p, script), v.Sig, tmp, 250, time.Now().Add(90*time.Second))
				mv, _ := runIsolated(p, min, tmp)
				if mv == nil || mv.Sig != v.Sig {
					min, mv = script, v
				}
				f.Viol, f.Orig, f.Min = mv, orig, p.Size(min)
				f.Replay = writeReplay(p, tier, seed, js.Run, min, mv, 0, orig, execs, fatal)
				merged.Found[v.Sig] = f
			}
			merged.ViolRuns++
			confirmedDeaths[deathKey] = v.Sig
			if !merged.Found[v.Sig].IsKnown {
				// an unlisted fatal violation decides the verdict; keep what was checkpointed
				// and do not restart this worker
				mergeResult(pr.out)
				merged.Truncated = true
				continue
			}
			// keep what the dead worker had checkpointed and continue after it
			from := pr.start
			if r, ok := mergeResult(pr.out); ok && r.NextIdx > from {
				from = r.NextIdx
			}
			skip[w] = append(skip[w], js.Run)
			fatalBudget--
			if fatalBudget <= 0 {
				merged.Truncated = true
				continue
			}
			np, err := launch(w, from, pr.gen+1)
			if err != nil {
				fmt.Fprintln(os.Stderr, "cannot restart worker:", err)
				infra = true
				continue
			}
			next = append(next, np)
		}
		wave = next
	}
	if infra {
		return 2
	}
	sort.Slice(allHashes, func(i, k int) bool { return allHashes[i] < allHashes[k] })
	distinct := 0
	for i, h := range allHashes {
		if i == 0 || h != allHashes[i-1] {
			distinct++
		}
	}
	wall := time.Since(t0).Seconds()

	// verdict
	var sigs []string
	for s := range merged.Found {
		sigs = append(sigs, s)
	}
	sort.Slice(sigs, func(i, k int) bool { return merged.Found[sigs[i]].Run < merged.Found[sigs[k]].Run })
	unknown := 0
	var knownSeen []string
	for _, s := range sigs {
		f := merged.Found[s]
		if f.IsKnown {
			fmt.Printf("KNOWN-FINDING: property=%s %s [signature %s; %d runs; first replay %s]\n", propID, f.What, f.Sig, f.Count, f.Replay)
			knownSeen = append(knownSeen, f.Sig)
			continue
		}
		unknown++
		fmt.Printf("violation: %s (runs affected: %d; script size %d -> %d)\n", f.Viol, f.Count, f.Orig, f.Min)
		fmt.Printf("VIOLATION property=%s replay=%s\n", propID, f.Replay)
	}

	// samples: keep first, one faulted, the longest
	samples := pickSamples(merged.Samples)
	var missing []string
	for _, pn := range info.RequiredProbes {
		if merged.Stats.Probes[pn] == 0 {
			missing = append(missing, pn)
		}
	}
	cov := map[string]interface{}{
		"evaluations":         merged.Runs,
		"distinct_nontrivial": distinct,
		"rule": info.Rule + " Distinct = distinct FNV-1a hashes of the executor's event log among runs in which at least one reach probe fired" +
			map[bool]string{true: " (per-worker hash set was capped, so this is a lower bound)", false: ""}[merged.HashCapped] + ".",
		"samples":                  samples,
		"exhaustive":               false,
		"exhaustive_subspace_runs": merged.SweepRuns,
		"random_runs":              merged.Runs - merged.SweepRuns,
		"fault_free_runs":          merged.FaultFree,
		"faulted_runs":             merged.Runs - merged.FaultFree,
		"probed_runs":              merged.ProbedRuns,
		"runs_per_hour":            int64(float64(merged.Runs) / wall * 3600),
		"seeds_per_hour":           int64(float64(merged.Runs-merged.SweepRuns) / wall * 3600),
		"workers":                  nw,
		"faults_fired":             merged.Stats.Faults,
		"probes":                   merged.Stats.Probes,
		"units":                    merged.Stats.Units,
		"simulated_time":           simTime(info, merged.Stats),
		"real_components":          info.Real,
		"stub_components":          info.Stub,
		"known_findings_seen":      knownSeen,
		"violating_runs":           merged.ViolRuns,
		"truncated_by_wall_clock":  merged.Truncated,
		"gots_tree_id":             tree,
		"missing_required_probes":  missing,
		"technique":                "deterministic simulation with fault injection: seed -> explicit script -> pure executor over real gots code -> oracle -> minimised replay file",
	}
	ev := Evidence{PropertyID: propID, Tier: tier, Seed: int64(seed), Level: "exploration", Coverage: cov,
		Assumptions: info.Assumptions, WallS: wall, Violations: unknown}
	eb, _ := json.MarshalIndent(ev, "", " ")
	evDir := filepath.Join(VerifDir(), "evidence")
	if d := os.Getenv("VERIF_EVIDENCE_DIR"); d != "" {
		evDir = d // development runs against deliberately broken trees must not touch the real evidence
	}
	os.MkdirAll(evDir, 0o755)
	if err := os.WriteFile(filepath.Join(evDir, propID+".json"), eb, 0o644); err != nil {
		fmt.Fprintln(os.Stderr, err)
		return 2
	}
	fmt.Printf("summary property=%s tier=%s runs=%d fault_free=%d probed=%d distinct=%d violating_runs=%d unknown_signatures=%d wall=%.1fs\n",
		propID, tier, merged.Runs, merged.FaultFree, merged.ProbedRuns, distinct, merged.ViolRuns, unknown, wall)
	printCounters("faults", merged.Stats.Faults)
	printCounters("probes", merged.Stats.Probes)
	if unknown > 0 {
		return 1
	}
	if len(missing) > 0 {
		fmt.Fprintf(os.Stderr, "vacuous batch: required probes never fired: %v\n", missing)
		return 2
	}
	if distinct < 2 {
		fmt.Fprintln(os.Stderr, "vacuous batch: fewer than 2 distinct non-trivial executions")
		return 2
	}
	return 0
}

func simTime(info Info, s *Stats) map[string]interface{} {
	if info.SimTimeUnit == "" {
		return map[string]interface{}{"note": "this property has no clock; see units (packets/bytes on the simulated wire, calls)"}
	}
	return map[string]interface{}{"unit": info.SimTimeUnit, "total": s.Units[info.SimTimeUnit]}
}

func pickSamples(all []Sample) []Sample {
	var first, faulted, longest *Sample
	for i := range all {
		s := &all[i]
		switch s.Kind {
		case "first":
			if first == nil {
				first = s
			}
		case "faulted":
			if faulted == nil || s.Run < faulted.Run {
				faulted = s
			}
		case "longest":
			if longest == nil || s.Size > longest.Size || (s.Size == longest.Size && s.Run < longest.Run) {
				longest = s
			}
		}
	}
	var out []Sample
	for _, s := range []*Sample{first, faulted, longest} {
		if s != nil {
			out = append(out, *s)
		}
	}
	return out
}

func printCounters(title string, m map[string]int64) {
	var ks []string
	for k := range m {
		ks = append(ks, k)
	}
	sort.Strings(ks)
	var sb strings.Builder
	for _, k := range ks {
		fmt.Fprintf(&sb, " %s=%d", k, m[k])
	}
	fmt.Printf("%s:%s\n", title, sb.String())
}

func tail(s string, n int) string {
	lines := strings.Split(s, "\n")
	if len(lines) > n {
		lines = lines[len(lines)-n:]
	}
	return strings.Join(lines, "\n")
}

// ---------------------------------------------------------------------------
// selftest: determinism of generator and executor across processes

// SelfTest executes, for each property, n run indices in two separate child
// processes under different GOMAXPROCS and compares the script bytes, the
// verdicts and the log hashes.
func SelfTest(props []string, n int, tier string) int {
	bad := 0
	for _, id := range props {
		var outs [][]byte
		for _, procs := range []string{"1", "4", "16"} {
			cmd := exec.Command(os.Args[0], "hashes", "--property", id, "--tier", tier, "--n", strconv.Itoa(n))
			cmd.Env = append(os.Environ(), "GOMAXPROCS="+procs)
			var errb bytes.Buffer
			cmd.Stderr = &errb
			out, err := cmd.Output()
			if err != nil {
				fmt.Fprintf(os.Stderr, "selftest %s: child failed: %v\n%s\n", id, err, errb.String())
				return 2
			}
			outs = append(outs, out)
		}
		div := 0
		for i := 1; i < len(outs); i++ {
			if !bytes.Equal(outs[0], outs[i]) {
				div++
			}
		}
		lines := bytes.Count(outs[0], []byte("\n"))
		fmt.Printf("selftest property=%s runs=%d processes=3 diverged=%d\n", id, lines, div)
		if div > 0 {
			bad++
		}
	}
	if bad > 0 {
		fmt.Fprintln(os.Stderr, "selftest: NONDETERMINISM detected")
		return 2
	}
	return 0
}

// Hashes prints one line per run index: script hash, verdict signature, log hash.
func Hashes(propID, tier string, n int, w io.Writer) int {
	p, err := Lookup(propID)
	if err != nil {
		fmt.Fprintln(os.Stderr, err)
		return 2
	}
	if p.Info().Isolated {
		startWatchdog(nil)
	}
	seed := BaseSeed(tier)
	bw := bufio.NewWriter(w)
	defer bw.Flush()
	st := NewStats()
	c := NewCtx(st)
	sweep := p.SweepSize(tier)
	for i := 0; i < n; i++ {
		idx := i
		if i%2 == 1 { // alternate between sweep cases and random runs
			idx = sweep + i
		}
		script := ScriptFor(p, tier, seed, idx)
		raw, _ := json.Marshal(script)
		sh := sha256.Sum256(raw)
		c.Reset()
		p.Exec(script, c)
		sig := "-"
		if v := c.Violation(); v != nil {
			sig = v.Sig
		}
		fmt.Fprintf(bw, "%d %x %016x %s\n", idx, sh[:8], c.Hash(), sig)
	}
	return 0
}
