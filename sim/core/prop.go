package core

import (
	"encoding/json"
	"fmt"
	"sort"
)

// Property is one simulated check: a generator (the only consumer of the
// PRNG), a deterministic executor with its oracle, and a shrinker.
type Property interface {
	ID() string
	Info() Info
	// New returns a pointer to an empty script, for JSON decoding.
	New() interface{}
	// Gen builds the complete, explicit script of one random run.
	Gen(r *Rand, tier string) interface{}
	// SweepSize is the size of the exhaustively enumerated sub-space for the
	// tier (0 = none); SweepCase(i) is its i-th script.
	SweepSize(tier string) int
	SweepCase(tier string, i int) interface{}
	// Exec runs the script against the real library and evaluates the oracle.
	// It must be a pure function of (script, code under test).
	Exec(script interface{}, c *Ctx)
	// Shrink returns simpler variants of the script (deep copies).
	Shrink(script interface{}) []interface{}
	// Size is a measure the minimiser drives down (and "longest" sample).
	Size(script interface{}) int
}

// Info is the static description of a check that goes into the evidence.
type Info struct {
	Runs           map[string]int // random runs per tier
	Rule           string
	Real           []string
	Stub           []string
	Assumptions    []string
	RequiredProbes []string // must be >0 at the end of a batch, else exit 2
	SimTimeUnit    string   // which Units key is "simulated time covered"
	// Isolated: library calls may die fatally (OOM, stack overflow, hang);
	// workers journal every run and the parent confirms by replay.
	Isolated bool
}

var registry = map[string]Property{}

func Register(p Property) { registry[p.ID()] = p }

func Lookup(id string) (Property, error) {
	p, ok := registry[id]
	if !ok {
		return nil, fmt.Errorf("unknown property %q (have %v)", id, IDs())
	}
	return p, nil
}

func IDs() []string {
	var ids []string
	for k := range registry {
		ids = append(ids, k)
	}
	sort.Strings(ids)
	return ids
}

// Clone deep-copies a script through JSON (scripts are plain data).
func Clone(p Property, script interface{}) interface{} {
	b, err := json.Marshal(script)
	if err != nil {
		panic(err)
	}
	n := p.New()
	if err := json.Unmarshal(b, n); err != nil {
		panic(err)
	}
	return n
}

// RunOnce executes a script in a fresh context and returns the violation (or
// nil) and the log hash.
func RunOnce(p Property, script interface{}, keep bool) (*Violation, uint64, []string) {
	st := NewStats()
	c := NewCtx(st)
	c.Keep = keep
	p.Exec(script, c)
	return c.Violation(), c.Hash(), c.Lines
}

// Minimise shrinks a failing script while the same violation signature
// persists. Greedy first-improvement over the property's candidates, bounded
// by maxExec executions.
func Minimise(p Property, script interface{}, sig string, maxExec int) (interface{}, int) {
	cur := script
	execs := 0
	for improved := true; improved && execs < maxExec; {
		improved = false
		for _, cand := range p.Shrink(cur) {
			if execs >= maxExec {
				break
			}
			execs++
			v, _, _ := RunOnce(p, cand, false)
			if v != nil && v.Sig == sig {
				cur = cand
				improved = true
				break
			}
		}
	}
	return cur, execs
}

// DropChunks returns index sets for ddmin-style removal on a list of length
// n: halves, quarters, ... single elements. Each result is the list of indices
// to keep.
func DropChunks(n int) [][]int {
	var out [][]int
	if n == 0 {
		return out
	}
	// remove everything first (the largest step)
	out = append(out, []int{})
	// Long lists are first cut in coarse chunks only (at most ~64 candidates per level);
	// finer cuts become available as the list gets shorter. Without this bound a list of
	// thousands of steps would yield tens of thousands of candidate copies at once.
	minChunk := 1
	if n > 64 {
		minChunk = n / 32
	}
	for chunk := n / 2; chunk >= minChunk; chunk /= 2 {
		for start := 0; start < n; start += chunk {
			end := start + chunk
			if end > n {
				end = n
			}
			if start == 0 && end == n {
				continue
			}
			keep := make([]int, 0, n-(end-start))
			for i := 0; i < n; i++ {
				if i < start || i >= end {
					keep = append(keep, i)
				}
			}
			out = append(out, keep)
		}
		if chunk == 1 {
			break
		}
	}
	return out
}
