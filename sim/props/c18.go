package props

import (
	"bufio"
	"bytes"
	"context"
	"errors"
	"fmt"
	"io"
	"os"

	gots "github.com/Comcast/gots/v2"
	"github.com/Comcast/gots/v2/packet"

	"verif/sim/core"
	"verif/sim/parties"
)

// C18 - writer adapters: reader fragmentation x failing packet writer x partial tail.

type C18Script struct {
	Mode    string           `json:"mode"`    // "write" | "readfrom" | "iocopy"
	Adapter string           `json:"adapter"` // "IOWriter" | "IOWriteCloser" | "Func"
	Packets int              `json:"packets"`
	Tail    int              `json:"tail"`            // bytes of a further, incomplete packet (0..187)
	Salt    int              `json:"salt"`            // varies packet contents
	Cuts    []int            `json:"cuts,omitempty"`  // write mode: byte count of each Write call
	Reads   []parties.ReadOp `json:"reads,omitempty"` // readfrom/iocopy: outcome of each Read call
	Default string           `json:"default_read,omitempty"`
	Sink    parties.SinkPlan `json:"sink"`
	// Again > 0: afterwards the SAME adapter is used once more, on a clean stream of Again
	// packets read in Again2 style ("full" | "one") and for one clean Write: whatever the
	// first call left behind (partial packet, error) must not leak into later calls
	Again  int    `json:"again,omitempty"`
	Again2 string `json:"again_style,omitempty"`
	// Wrap (readfrom mode only): hand ReadFrom a reader that also implements io.WriterTo:
	// "bytes" = bytes.Reader over the data, "bufio" = bufio.Reader over the SimReader,
	// "bufio_peeked" = the same after a Peek filled its buffer. "" = the SimReader itself.
	Wrap string `json:"wrap,omitempty"`
	// Repeat k>0: every packet whose index i has i%k == k-1 is byte for byte the packet before
	// it (a duplicate packet as ISO 13818-1 allows, a run of identical stuffing): still a
	// packet of its own, delivered like any other
	Repeat int `json:"repeat,omitempty"`
	// Mode "nested": an adapter around an adapter around the sink; ReadFrom runs on the outer one
	// and the reader itself, at its Inject[i]-th Read call, writes one packet of its own through
	// the INNER adapter (a source that emits stuffing while its input is slow). Nest = "direct"
	// (the inner adapter is handed to IOWriter as it is) | "func" (through PacketWriterFunc).
	Inject []int  `json:"inject,omitempty"`
	Nest   string `json:"nest,omitempty"`
}

type c18 struct{}

func init() { core.Register(c18{}) }

func (c18) ID() string       { return "C18" }
func (c18) New() interface{} { return &C18Script{} }
func (c18) Info() core.Info {
	return core.Info{
		Runs: map[string]int{"quick": 1500000, "thorough": 100000000},
		Rule: "Each run sends m<=24 uniquely stamped packets (+ optional 1..187-byte partial tail) through IOWriter/IOWriteCloser/PacketWriterFunc adapters, either by Write calls cut at scripted byte counts (multiples of 188 and, as the negative case, non-multiples) or by ReadFrom / io.Copy over a SimReader whose every Read outcome is scripted (whole packets, unaligned fragments, one byte at a time, zero-length reads, data together with EOF, transient/hard error after e bytes), with a SimSink that may fail or short-count at a scripted packet; plus a complete sweep of all compositions of two packets (376 bytes) into <=3 read fragments x {EOF alone, data with EOF}. Non-trivial = at least one reach probe fired. Added in waves 19-21: mode nested (two stacked adapters, the reader writes through the inner one at scripted Read calls while the outer one reads), mode reenter (the packet writer writes through the adapter that is calling it during a multi-packet Write), readers with a refusing Seek method, reader errors that answer Temporary(), a sink failing with io.ErrShortWrite.",
		Real: []string{"packet.IOWriter", "packet.IOWriteCloser", "packet.NopCloser", "packet.PacketWriterFunc", "(*packetWriter).Write", "(*packetWriter).ReadFrom", "io.Copy (stdlib)"},
		Stub: []string{"SimReader (scripted io.Reader)", "SimSink (scripted PacketWriter/Closer)", "packet source"},
		Assumptions: []string{
			"after an injected reader error the sink log may be any prefix covering at least the packets fully delivered before the failing Read; it must never contain a misaligned, duplicated or reordered packet",
			"a sink that returns a short count without error is outside the statement: only integrity and order of what is delivered are checked after it",
		},
		RequiredProbes: []string{"frag_unaligned", "one_byte", "data_with_eof", "partial_tail", "sink_err_first", "sink_err_mid", "reader_err_mid_packet", "via_io_copy", "write_not_multiple", "write_multi_packet", "closer", "adapter_reused", "adapter_reused_after_partial_tail", "reader_is_writerto", "bufio_reader_smaller_than_a_packet", "stream_with_repeated_packets", "sink_err_full_count", "reader_fails_with_unexpected_eof", "sink_fails_with_eof_value", "seekable_reader_already_partly_read", "empty_read_before_every_byte", "reader_fails_with_a_well_known_sentinel", "more_than_4gib_in_one_call", "sink_type_has_own_write_method", "reentrant_write_between_two_short_reads_of_one_packet", "reentrant_write_inside_a_multi_packet_write"},
	}
}

func c18Packet(i, salt int) packet.Packet {
	var p packet.Packet
	p[0] = 0x47
	pid := 0x100 + (i*37+salt)%0x1e00
	p[1] = byte(pid >> 8)
	p[2] = byte(pid)
	p[3] = 0x10 | byte(i&0x0f)
	copy(p[4:], []byte{'S', 'E', 'R', byte(salt >> 8), byte(salt), byte(i >> 16), byte(i >> 8), byte(i)})
	for k := 12; k < 188; k++ {
		p[k] = byte(i*7 + k*13 + salt)
	}
	return p
}

func c18Data(s *C18Script) ([]packet.Packet, []byte) {
	src := make([]packet.Packet, s.Packets)
	var data []byte
	for i := range src {
		src[i] = c18Packet(i, s.Salt)
		if s.Repeat > 0 && i > 0 && i%s.Repeat == s.Repeat-1 {
			src[i] = src[i-1]
		}
		data = append(data, src[i][:]...)
	}
	if s.Tail > 0 {
		t := c18Packet(s.Packets, s.Salt)
		tl := s.Tail
		if tl > 187 {
			tl = 187
		}
		data = append(data, t[:tl]...)
	}
	return src, data
}

func (c18) Gen(r *core.Rand, tier string) interface{} {
	s := &C18Script{Salt: r.Intn(60000)}
	s.Mode = r.PickS("write", "readfrom", "readfrom", "iocopy")
	s.Adapter = r.PickS("IOWriter", "IOWriteCloser", "Func", "IOWriterOverWriterSink")
	s.Packets = r.Pick(0, 1, 1, 2, 2, 3, 4, 5, 8, 13, 24)
	s.Sink.FailAt = -1
	faultSrc := r.Intn(10) // swarm: at most one error source per run
	if faultSrc == 0 || faultSrc == 1 {
		if s.Packets > 0 {
			s.Sink.FailAt = r.Pick(0, 0, r.Intn(s.Packets), s.Packets-1)
			s.Sink.Kind = r.PickS("err", "err", "errfull")
			s.Sink.As = r.PickS("", "", "", "eof", "ueof", "temporary", "shortwrite")
			if r.Chance(1, 5) {
				s.Sink.Kind = "short"
				s.Sink.ShortN = r.Pick(0, 1, 100, 187)
			}
		}
	}
	if s.Adapter == "IOWriteCloser" && r.Chance(1, 4) {
		s.Sink.CloseErr = true
	}
	if r.Chance(1, 25) {
		// the packet writer itself writes a packet through the adapter that is calling it
		s.Mode, s.Adapter = "reenter", "Func"
		s.Sink = parties.SinkPlan{FailAt: -1}
		s.Packets = r.Pick(1, 2, 3, 4, 8)
		for k := r.Range(1, 2); k > 0; k-- {
			s.Inject = append(s.Inject, r.Range(1, s.Packets))
		}
		return s
	}
	if r.Chance(1, 10) {
		// two adapters stacked, the reader writes through the inner one while the outer one reads
		s.Mode, s.Adapter, s.Nest = "nested", "IOWriter", r.PickS("direct", "direct", "func")
		s.Sink = parties.SinkPlan{FailAt: -1}
		if r.Chance(1, 4) {
			s.Tail = r.Range(1, 187)
		}
		style := r.PickS("frag", "frag", "one", "mixed")
		n := (s.Packets*188+s.Tail)/90 + 4
		if style == "one" {
			s.Default = "one"
		} else {
			s.Reads = parties.GenReadOps(r, r.Range(1, n), style, false)
			if r.Bool() {
				s.Default = "short"
			}
		}
		for k := r.Range(1, 3); k > 0; k-- {
			s.Inject = append(s.Inject, r.Range(1, len(s.Reads)+6))
		}
		return s
	}
	if r.Chance(1, 6) {
		s.Repeat = r.Pick(1, 2, 2, 3)
	}
	if r.Chance(1, 3) {
		s.Again = r.Pick(1, 2, 3)
		s.Again2 = r.PickS("full", "one")
	}
	if s.Mode == "write" {
		// cut the data into Write calls
		if r.Chance(1, 6) {
			s.Tail = r.Range(1, 187) // makes the last chunk a non-multiple
		}
		total := s.Packets*188 + s.Tail
		left := s.Packets
		bad := r.Chance(1, 5)
		for left > 0 {
			k := r.Range(1, left)
			if r.Chance(1, 3) {
				k = 1
			}
			s.Cuts = append(s.Cuts, k*188)
			left -= k
		}
		if bad && len(s.Cuts) > 0 {
			i := r.Intn(len(s.Cuts))
			s.Cuts[i] += r.Pick(-187, -1, 1, 94, 187)
			if s.Cuts[i] < 0 {
				s.Cuts[i] = 1
			}
		}
		if r.Chance(1, 10) {
			s.Cuts = append(s.Cuts, 0)
		}
		_ = total
		return s
	}
	if r.Chance(1, 4) {
		s.Tail = r.Range(1, 187)
	}
	if s.Mode == "readfrom" && r.Chance(1, 4) {
		s.Wrap = r.PickS("bytes", "bufio", "bufio_peeked")
	}
	style := r.PickS("full", "frag", "frag", "one", "mixed", "mixed")
	n := (s.Packets*188+s.Tail)/90 + 4
	if style == "one" {
		s.Default = r.PickS("one", "one", "stutter")
	} else {
		s.Reads = parties.GenReadOps(r, r.Range(1, n), style, false)
		if style == "frag" && r.Bool() {
			s.Default = "short"
		}
	}
	if faultSrc == 2 || faultSrc == 3 {
		s.Reads = parties.GenReadOps(r, r.Range(0, n), r.PickS("full", "frag", "mixed"), true)
		s.Sink.FailAt = -1
		if r.Chance(1, 3) {
			as := r.PickS("ueof", "weof", "closedpipe", "osclosed", "noprogress", "canceled", "deadline", "temporary")
			for i := range s.Reads {
				if s.Reads[i].Kind == "err" || s.Reads[i].Kind == "hard_err" {
					s.Reads[i].As = as // the reader's OWN error is io.ErrUnexpectedEOF, or wraps io.EOF
				}
			}
		}
	}
	return s
}

// sweep: every composition of 376 bytes into <=3 fragments x EOF style
const c18Comp3 = 375 * 374 / 2 // two distinct cut points
const c18Sweep = 2 * (1 + 375 + c18Comp3)

// one more case after the compositions: a single ReadFrom that delivers more than 4 GiB
func (c18) SweepSize(tier string) int { return c18Sweep + 1 }

func (c18) SweepCase(tier string, i int) interface{} {
	if i == c18Sweep {
		return &C18Script{Mode: "huge", Adapter: "Func", Packets: 22845571 + 3, Sink: parties.SinkPlan{FailAt: -1}}
	}
	eof := i % 2
	i /= 2
	s := &C18Script{Mode: "readfrom", Adapter: "IOWriter", Packets: 2, Salt: 7}
	s.Sink.FailAt = -1
	switch {
	case i == 0:
		s.Reads = []parties.ReadOp{{Kind: "short", N: 376}}
	case i <= 375:
		a := i
		s.Reads = []parties.ReadOp{{Kind: "short", N: a}, {Kind: "short", N: 376 - a}}
	default:
		k := i - 376
		// unrank the pair a<b in 1..375
		a := 1
		for k >= 375-a {
			k -= 375 - a
			a++
		}
		b := a + 1 + k
		s.Reads = []parties.ReadOp{{Kind: "short", N: a}, {Kind: "short", N: b - a}, {Kind: "short", N: 376 - b}}
	}
	if eof == 1 {
		s.Reads[len(s.Reads)-1] = parties.ReadOp{Kind: "data_eof"}
	}
	return s
}

func (c18) Size(script interface{}) int {
	s := script.(*C18Script)
	return s.Packets*4 + len(s.Cuts) + len(s.Reads) + s.Tail/16
}

// c18Huge: one ReadFrom over a generated stream of more than 4 GiB (no storage): the
// returned count is an int64 and must not wrap.
type c18Gen struct {
	left int64
	pkt  [188]byte
	off  int
	c    *core.Ctx
}

func (g *c18Gen) Read(p []byte) (int, error) {
	if g.left <= 0 {
		return 0, io.EOF
	}
	k := copy(p, g.pkt[g.off:])
	g.off = (g.off + k) % 188
	if g.c != nil && (g.left>>24) != ((g.left-int64(k))>>24) {
		g.c.Tick() // data is moving: this one call legitimately takes seconds
	}
	g.left -= int64(k)
	return k, nil
}

func c18Huge(s *C18Script, c *core.Ctx) {
	c.Probe("more_than_4gib_in_one_call")
	total := int64(s.Packets) * 188
	g := &c18Gen{left: total, c: c}
	g.pkt[0], g.pkt[3] = 0x47, 0x10
	delivered := int64(0)
	w := packet.IOWriter(packet.PacketWriterFunc(func(p *packet.Packet) (int, error) { delivered++; return 188, nil }))
	var n int64
	var err error
	if !c.Call("packetWriter.ReadFrom(>4GiB)", func() { n, err = w.(io.ReaderFrom).ReadFrom(g) }) {
		return
	}
	c.Log("huge n=%d err=%v delivered=%d", n, err, delivered)
	c.Unit("packets_offered", int64(s.Packets))
	if err != nil || delivered != int64(s.Packets) || n != total {
		c.Fail("bytes_delivered", "count_wrong_beyond_4gib", []interface{}{n, err, delivered}, []interface{}{total, nil, s.Packets})
	}
}

// c18Reentrant is a reader that, at scripted Read calls, first writes a packet of its own
// through another adapter (which ends in the same sink) and then reads on.
type c18Reentrant struct {
	sr     *parties.SimReader
	w      io.Writer
	at     map[int]bool
	calls  int
	salt   int
	wrote  []packet.Packet
	badRes string
	midPkt bool
}

func (r *c18Reentrant) Read(p []byte) (int, error) {
	r.calls++
	if r.at[r.calls] {
		pkt := c18Packet(5000+len(r.wrote), r.salt+5)
		if r.sr.Pos()%188 != 0 {
			r.midPkt = true
		}
		n, err := r.w.Write(pkt[:])
		if (n != 188 || err != nil) && r.badRes == "" {
			r.badRes = fmt.Sprint(n, " ", err)
		}
		r.wrote = append(r.wrote, pkt)
	}
	return r.sr.Read(p)
}

// c18Reenter: one Write of several packets; while it handles the Inject[i]-th of them the packet
// writer sends a packet of its own through the very adapter that is calling it (it has logged
// the packet it was given first).
func c18Reenter(s *C18Script, c *core.Ctx) {
	src, data := c18Data(s)
	data = data[:188*len(src)]
	at := map[int]bool{}
	for _, k := range s.Inject {
		at[k] = true
	}
	var w io.Writer
	var log, extra []packet.Packet
	outer, nested := 0, false
	badRes := ""
	w = packet.IOWriter(packet.PacketWriterFunc(func(p *packet.Packet) (int, error) {
		log = append(log, *p)
		if nested {
			return 188, nil
		}
		outer++
		if at[outer] {
			nested = true
			x := c18Packet(5000+len(extra), s.Salt+5)
			extra = append(extra, x)
			n, err := w.Write(x[:])
			if (n != 188 || err != nil) && badRes == "" {
				badRes = fmt.Sprint(n, " ", err)
			}
			nested = false
		}
		return 188, nil
	}))
	c.Log("c18 reenter packets=%d inject=%v", s.Packets, s.Inject)
	c.Unit("packets_offered", int64(s.Packets))
	var n int
	var err error
	if !c.Call("packetWriter.Write(packet writer re-enters the adapter)", func() { n, err = w.Write(data) }) {
		return
	}
	c.Log("reenter n=%d err=%v delivered=%d extra=%d", n, err, len(log), len(extra))
	if len(extra) > 0 {
		c.Probe("packet_writer_wrote_through_its_own_adapter")
		c.Fault("reentrant_write_during_write")
		if s.Packets >= 2 {
			c.Probe("reentrant_write_inside_a_multi_packet_write")
		}
	}
	if badRes != "" {
		c.Fail("full_length", "reenter:inner_write_result_wrong", badRes, "188 <nil>")
		return
	}
	a, b := 0, 0
	for k := range log {
		switch {
		case a < len(src) && log[k] == src[a]:
			a++
		case b < len(extra) && log[k] == extra[b]:
			b++
		default:
			c.Fail("unmodified", "reenter:delivered_bytes_not_the_next_packet_of_either_source", k, "the next packet of the slice or of the packet writer")
			return
		}
	}
	if a != len(src) || b != len(extra) {
		c.Fail("once_per_packet", "reenter:packets_not_all_delivered", []int{a, b}, []int{len(src), len(extra)})
		return
	}
	if n != len(data) || err != nil {
		c.Fail("full_length", "reenter:write_result_wrong", []interface{}{n, err}, []interface{}{len(data), nil})
	}
}

func c18Nested(s *C18Script, c *core.Ctx) {
	src, data := c18Data(s)
	sink := parties.NewSimSink(parties.SinkPlan{FailAt: -1}, c)
	inner := packet.IOWriter(sink)
	var outer io.Writer
	if pw, ok := inner.(packet.PacketWriter); ok && s.Nest != "func" {
		outer = packet.IOWriter(pw)
		c.Probe("adapter_stacked_directly_on_an_adapter")
	} else {
		outer = packet.IOWriter(packet.PacketWriterFunc(func(p *packet.Packet) (int, error) { return inner.Write(p[:]) }))
	}
	rf, isRF := outer.(io.ReaderFrom)
	if !isRF {
		c.Fail("reads_from_any_reader", "adapter_has_no_readfrom", fmt.Sprintf("%T", outer), "an io.ReaderFrom")
		return
	}
	sr := parties.NewSimReader(data, s.Reads, c)
	sr.DefaultKind = s.Default
	rr := &c18Reentrant{sr: sr, w: inner, at: map[int]bool{}, salt: s.Salt}
	for _, k := range s.Inject {
		rr.at[k] = true
	}
	c.Log("c18 nested=%s packets=%d tail=%d inject=%v", s.Nest, s.Packets, s.Tail, s.Inject)
	c.Unit("packets_offered", int64(s.Packets))
	var n int64
	var err error
	if !c.Call("packetWriter.ReadFrom(outer of two stacked adapters)", func() { n, err = rf.ReadFrom(rr) }) {
		return
	}
	c.Log("nested n=%d err=%v delivered=%d wrote=%d reads=%d", n, err, len(sink.Log), len(rr.wrote), rr.calls)
	c.Unit("read_calls", int64(rr.calls))
	if len(rr.wrote) > 0 {
		c.Probe("reader_wrote_through_the_inner_adapter")
		c.Fault("reentrant_write_during_read")
	}
	if rr.midPkt {
		c.Probe("reentrant_write_between_two_short_reads_of_one_packet")
	}
	if rr.badRes != "" {
		c.Fail("full_length", "nested:inner_write_result_wrong", rr.badRes, "188 <nil>")
		return
	}
	// the sink saw the stream's packets in order and the reader's own packets in order,
	// interleaved somehow, each of them byte for byte
	a, b := 0, 0
	for k := range sink.Log {
		switch {
		case a < len(src) && sink.Log[k] == src[a]:
			a++
		case b < len(rr.wrote) && sink.Log[k] == rr.wrote[b]:
			b++
		default:
			c.Fail("unmodified", "nested:delivered_bytes_not_the_next_packet_of_either_source", k, "the stream's or the reader's next packet")
			return
		}
	}
	if a != s.Packets || b != len(rr.wrote) {
		c.Fail("each_complete_packet", "nested:complete_packets_not_delivered", []int{a, b}, []int{s.Packets, len(rr.wrote)})
		return
	}
	if n != int64(188*s.Packets) {
		c.Fail("bytes_delivered", "nested:count_mismatch", n, 188*s.Packets)
		return
	}
	if s.Tail > 0 && err != gots.ErrInvalidPacketLength {
		c.Fail("partial_tail", "nested:partial_tail_not_reported", err, "ErrInvalidPacketLength")
		return
	}
	if s.Tail == 0 && err != nil {
		c.Fail("no_error", "nested:spurious_error", err, nil)
	}
}

func (c18) Exec(script interface{}, c *core.Ctx) {
	s := script.(*C18Script)
	if s.Mode == "huge" {
		c18Huge(s, c)
		return
	}
	if s.Mode == "nested" {
		c18Nested(s, c)
		return
	}
	if s.Mode == "reenter" {
		c18Reenter(s, c)
		return
	}
	src, data := c18Data(s)
	if s.Repeat > 0 && s.Packets >= 2 && s.Mode != "huge" {
		c.Probe("stream_with_repeated_packets")
	}
	orig := append([]byte(nil), data...)
	sink := parties.NewSimSink(s.Sink, c)
	var w io.Writer
	var closer io.Closer
	var sinkW *parties.SimSinkW
	defer func() {
		if sinkW != nil && sinkW.RawWrites > 0 && !c.Failed() {
			c.Fail("invokes_packet_writer", "adapter_bypassed_the_packet_writer", sinkW.RawWrites, "0 raw writes: every packet goes through WritePacket")
		}
	}()
	switch s.Adapter {
	case "IOWriteCloser":
		wc := packet.IOWriteCloser(sink)
		w, closer = wc, wc
		c.Probe("closer")
	case "Func":
		w = packet.IOWriter(packet.PacketWriterFunc(sink.WritePacket))
	case "IOWriterOverWriterSink":
		sinkW = &parties.SimSinkW{SimSink: sink}
		w = packet.IOWriter(sinkW)
		c.Probe("sink_type_has_own_write_method")
	default:
		w = packet.IOWriter(sink)
	}
	// another adapter alive in the same process: one packet through it before and one after
	// the call under test; it must see exactly those two
	by1, by2 := c18Packet(3000, s.Salt+3), c18Packet(3001, s.Salt+3)
	bySink := parties.NewSimSink(parties.SinkPlan{FailAt: -1}, c)
	byW := packet.IOWriter(bySink)
	if !c.Call("packetWriter.Write(bystander)", func() { byW.Write(by1[:]) }) {
		return
	}
	defer func() {
		if c.Failed() {
			return
		}
		if !c.Call("packetWriter.Write(bystander)", func() { byW.Write(by2[:]) }) {
			return
		}
		if len(bySink.Log) != 2 || bySink.Log[0] != by1 || bySink.Log[1] != by2 {
			c.Fail("adapters_independent", "another_adapter_changed", len(bySink.Log), "its own two packets")
		}
	}()
	c.Log("c18 mode=%s adapter=%s packets=%d tail=%d sink=%d/%s", s.Mode, s.Adapter, s.Packets, s.Tail, s.Sink.FailAt, s.Sink.Kind)
	c.Unit("packets_offered", int64(s.Packets))

	// integrity of everything the sink saw: each logged packet is a source
	// packet, strictly increasing (no duplicate, no reordering, no misalignment)
	integrity := func() bool {
		last := -1
		for k := range sink.Log {
			// the stamp names the first source position with these bytes; a repeated packet
			// (script field Repeat) has the same bytes at the following position(s)
			idx := int(sink.Log[k][9])<<16 | int(sink.Log[k][10])<<8 | int(sink.Log[k][11])
			if idx >= len(src) || sink.Log[k] != src[idx] {
				c.Fail("unmodified", "delivered_bytes_not_a_source_packet", k, "one of the source packets")
				return false
			}
			j := idx
			for j <= last && j+1 < len(src) && src[j+1] == src[idx] {
				j++
			}
			if j <= last {
				c.Fail("order", "duplicate_or_reordered_delivery", idx, last+1)
				return false
			}
			last = j
		}
		return true
	}
	shortSeen := func() bool { return s.Sink.Kind == "short" && s.Sink.FailAt >= 0 && sink.Calls > s.Sink.FailAt }

	if s.Mode == "write" {
		pos := 0
		var model []int
		for ci, cut := range s.Cuts {
			c.SetStep(ci)
			if cut > len(data)-pos {
				cut = len(data) - pos
			}
			chunk := data[pos : pos+cut]
			before := len(sink.Log)
			var n int
			var err error
			if !c.Call("packetWriter.Write", func() { n, err = w.Write(chunk) }) {
				return
			}
			c.Log("write len=%d -> n=%d err=%v delivered=%d", cut, n, err, len(sink.Log)-before)
			if !bytes.Equal(data, orig) {
				c.Fail("input_untouched", "write_modified_input", "changed", "unchanged")
				return
			}
			if cut%188 != 0 {
				c.Probe("write_not_multiple")
				if err != gots.ErrInvalidPacketLength {
					c.Fail("invalid_length", "non_multiple_not_rejected", err, "ErrInvalidPacketLength")
					return
				}
				if len(sink.Log) != before {
					c.Fail("invalid_length", "delivered_before_rejecting", len(sink.Log)-before, 0)
					return
				}
				// the rejected bytes are skipped by the caller; stay packet aligned for the model
				pos += cut
				if pos%188 != 0 {
					// later chunks are no longer aligned with source packets: stop here
					break
				}
				continue
			}
			a, b := pos/188, (pos+cut)/188
			pos += cut
			if pos%188 != 0 {
				break
			}
			if b-a > 1 {
				c.Probe("write_multi_packet")
			}
			failed := false
			for j := a; j < b; j++ {
				model = append(model, j)
				if len(model)-1 == s.Sink.FailAt && s.Sink.Kind != "short" {
					failed = true
					break
				}
			}
			if !integrity() {
				return
			}
			if shortSeen() {
				continue // outside the statement from here on
			}
			if len(sink.Log) != len(model) {
				cl, sg := "once_per_packet", "wrong_number_of_deliveries"
				if failed {
					cl, sg = "stop_after_failure", "delivery_after_failed_write"
				}
				c.Fail(cl, sg, len(sink.Log), len(model))
				return
			}
			for k, j := range model {
				if sink.Log[k] != src[j] {
					c.Fail("in_order", "wrong_packet_delivered", k, j)
					return
				}
			}
			if failed {
				if s.Sink.FailAt == 0 {
					c.Probe("sink_err_first")
				} else {
					c.Probe("sink_err_mid")
				}
				if err == nil || !errors.Is(err, sink.Err) {
					c.Fail("error_returned", "sink_error_not_returned", err, sink.Err)
					return
				}
			} else {
				if err != nil || n != cut {
					c.Fail("full_length", "write_result_wrong", []interface{}{n, err}, []interface{}{cut, nil})
					return
				}
			}
		}
	} else {
		sr := parties.NewSimReader(data, s.Reads, c)
		sr.DefaultKind = s.Default
		var n int64
		var err error
		if s.Mode == "iocopy" {
			c.Probe("via_io_copy")
			if !c.Call("io.Copy->ReadFrom", func() { n, err = io.Copy(w, sr) }) {
				return
			}
		} else {
			rf, isRF := w.(io.ReaderFrom)
			if !isRF {
				c.Fail("reads_from_any_reader", "adapter_has_no_readfrom", fmt.Sprintf("%T", w), "an io.ReaderFrom")
				return
			}
			var src io.Reader = sr
			wrap := s.Wrap
			if parties.HasErrOps(s.Reads) {
				wrap = "" // a buffering layer (and the harness's own Peek) would swallow the injected error
			}
			switch wrap {
			case "bytes":
				if s.Salt%3 == 0 {
					// a seekable reader that the caller has already read from: the stream is what
					// is left in it, not what it held at offset 0
					junk := bytes.Repeat([]byte{0x47, 0x1F, 0xFF, 0x10, 0xEE}, 15+s.Salt%40)
					br := bytes.NewReader(append(append([]byte(nil), junk...), data...))
					io.CopyN(io.Discard, br, int64(len(junk)))
					src = br
					c.Probe("seekable_reader_already_partly_read")
				} else {
					src = bytes.NewReader(data)
				}
				c.Probe("reader_is_writerto")
			case "bufio", "bufio_peeked":
				// a buffer smaller than a packet (bufio's minimum is 16), one that just holds
				// one, the default size: chosen from the script, no new field needed
				size := []int{4096, 16, 64, 187, 188, 189, 4096, 376}[(len(data)/188+len(s.Reads)+s.Tail)%8]
				if size < 188 {
					c.Probe("bufio_reader_smaller_than_a_packet")
				}
				br := bufio.NewReaderSize(sr, size)
				if wrap == "bufio_peeked" {
					br.Peek(1)
				}
				src = br
				c.Probe("reader_is_writerto")
			}
			if wrap == "" && s.Salt%5 == 3 {
				src = parties.RefusingSeeker{Reader: sr}
				c.Probe("reader_has_a_seek_method_that_refuses")
			}
			if !c.Call("packetWriter.ReadFrom", func() { n, err = rf.ReadFrom(src) }) {
				return
			}
		}
		c.Log("readfrom n=%d err=%v delivered=%d reads=%d pos=%d", n, err, len(sink.Log), sr.Calls, sr.Pos())
		c.Unit("read_calls", int64(sr.Calls))
		// probes about what the reader actually did
		if c18Unaligned(s) {
			c.Probe("frag_unaligned")
		}
		if s.Default == "stutter" {
			c.Probe("empty_read_before_every_byte")
		}
		if s.Default == "one" {
			c.Probe("one_byte")
		}
		if s.Tail > 0 {
			c.Probe("partial_tail")
		}
		for _, o := range s.Reads {
			if o.Kind == "data_eof" {
				c.Probe("data_with_eof")
				break
			}
		}
		if !integrity() {
			return
		}
		// the log must be a prefix 0..k-1
		for k := range sink.Log {
			if sink.Log[k] != src[k] {
				c.Fail("in_order", "packet_skipped", k, "source packet "+itoa(k))
				return
			}
		}
		if shortSeen() {
			return
		}
		sinkFailed := s.Sink.FailAt >= 0 && s.Sink.Kind != "short" && sink.Calls > s.Sink.FailAt
		switch {
		case sinkFailed:
			if s.Sink.As != "" {
				c.Probe("sink_fails_with_eof_value")
			}
			if s.Sink.FailAt == 0 {
				c.Probe("sink_err_first")
			} else {
				c.Probe("sink_err_mid")
			}
			if len(sink.Log) != s.Sink.FailAt+1 {
				c.Fail("stop_after_failure", "delivery_after_failed_write", len(sink.Log), s.Sink.FailAt+1)
				return
			}
			if err == nil || !errors.Is(err, sink.Err) {
				c.Fail("error_returned", "sink_error_not_returned", err, sink.Err)
				return
			}
			wantN := int64(188 * s.Sink.FailAt)
			alsoOK := wantN
			if s.Sink.Kind == "errfull" {
				c.Probe("sink_err_full_count")
				alsoOK += 188 // the failing writer reported these bytes as consumed: counting them or not are both defensible
			}
			if n != wantN && n != alsoOK {
				c.Fail("bytes_delivered", "count_after_sink_error", n, wantN)
				return
			}
		case sr.FirstErr != nil:
			if sr.FirstErrAt%188 != 0 || sr.FirstErrWith%188 != 0 {
				c.Probe("reader_err_mid_packet")
			}
			if n != int64(188*len(sink.Log)) {
				c.Fail("bytes_delivered", "count_mismatch_after_reader_error", n, 188*len(sink.Log))
				return
			}
			if len(sink.Log) < sr.FirstErrAt/188 {
				c.Fail("each_complete_packet", "packets_before_reader_error_lost", len(sink.Log), sr.FirstErrAt/188)
				return
			}
			var inj *parties.InjectedErr
			if errors.As(err, &inj) {
				return
			}
			if sr.FirstErr == io.ErrUnexpectedEOF {
				c.Probe("reader_fails_with_unexpected_eof")
			}
			if sr.FirstErr == io.ErrClosedPipe || errors.Is(sr.FirstErr, os.ErrClosed) || sr.FirstErr == io.ErrNoProgress || sr.FirstErr == context.Canceled || sr.FirstErr == os.ErrDeadlineExceeded {
				c.Probe("reader_fails_with_a_well_known_sentinel")
			}
			if err == sr.FirstErr { // identity: the reader's own error, whatever it wraps
				return
			}
			// the only legitimate way not to see the error: it arrived together with the
			// last byte of a packet and was transient (io.ReadFull semantics drop it)
			exact := len(sink.Log) == s.Packets && ((s.Tail == 0 && err == nil) || (s.Tail > 0 && err == gots.ErrInvalidPacketLength))
			if exact && sr.FirstErrWith%188 == 0 && sr.FirstErrWith > sr.FirstErrAt && !c18Hard(s) {
				return
			}
			c.Fail("reader_error", "reader_error_not_returned", err, sr.FirstErr)
			return
		default:
			if len(sink.Log) != s.Packets {
				c.Fail("each_complete_packet", "complete_packets_not_delivered", len(sink.Log), s.Packets)
				return
			}
			if n != int64(188*s.Packets) {
				c.Fail("bytes_delivered", "count_mismatch", n, 188*s.Packets)
				return
			}
			if s.Tail > 0 && err != gots.ErrInvalidPacketLength {
				c.Fail("partial_tail", "partial_tail_not_reported", err, "ErrInvalidPacketLength")
				return
			}
			if s.Tail == 0 && err != nil {
				c.Fail("no_error", "spurious_error", err, nil)
				return
			}
		}
	}
	if s.Again > 0 && !c.Failed() && !shortSeen() {
		c.Probe("adapter_reused")
		if s.Mode != "write" && s.Tail > 0 {
			c.Probe("adapter_reused_after_partial_tail")
		}
		// a clean second stream through the same adapter
		var src2 []packet.Packet
		var data2 []byte
		for i := 0; i < s.Again; i++ {
			p := c18Packet(1000+i, s.Salt+1)
			src2 = append(src2, p)
			data2 = append(data2, p[:]...)
		}
		base := len(sink.Log)
		sink.Plan.FailAt = -1
		sr2 := parties.NewSimReader(data2, nil, c)
		if s.Again2 == "one" {
			sr2.DefaultKind = "one"
		}
		var n2 int64
		var err2 error
		rf2, isRF := w.(io.ReaderFrom)
		if !isRF {
			c.Fail("reads_from_any_reader", "adapter_has_no_readfrom", fmt.Sprintf("%T", w), "an io.ReaderFrom")
			return
		}
		if !c.Call("packetWriter.ReadFrom(again)", func() { n2, err2 = rf2.ReadFrom(sr2) }) {
			return
		}
		c.Log("again readfrom n=%d err=%v delivered=%d", n2, err2, len(sink.Log)-base)
		if err2 != nil || n2 != int64(len(data2)) || len(sink.Log)-base != len(src2) {
			c.Fail("each_call_independent", "second_readfrom_on_same_adapter_wrong", []interface{}{n2, err2, len(sink.Log) - base}, []interface{}{len(data2), nil, len(src2)})
			return
		}
		for i := range src2 {
			if sink.Log[base+i] != src2[i] {
				c.Fail("each_call_independent", "second_readfrom_delivered_wrong_bytes", i, "the packet of the second stream")
				return
			}
		}
		base = len(sink.Log)
		one := c18Packet(2000, s.Salt+2)
		var n3 int
		var err3 error
		if !c.Call("packetWriter.Write(again)", func() { n3, err3 = w.Write(one[:]) }) {
			return
		}
		if err3 != nil || n3 != 188 || len(sink.Log)-base != 1 || sink.Log[base] != one {
			c.Fail("each_call_independent", "write_after_readfrom_on_same_adapter_wrong", []interface{}{n3, err3}, []interface{}{188, nil})
			return
		}
	}
	if closer != nil {
		var cerr error
		if !c.Call("packetWriter.Close", func() { cerr = closer.Close() }) {
			return
		}
		if sink.Closed != 1 || (cerr != nil) != s.Sink.CloseErr {
			c.Fail("close", "close_not_forwarded", []interface{}{sink.Closed, cerr}, []interface{}{1, s.Sink.CloseErr})
			return
		}
	} else if s.Adapter == "IOWriter" {
		nc := packet.NopCloser(sink)
		if err := nc.Close(); err != nil || sink.Closed != 0 {
			c.Fail("close", "nopcloser_not_nop", err, nil)
		}
	}
}

func c18Hard(s *C18Script) bool {
	for _, o := range s.Reads {
		if o.Kind == "hard_err" {
			return true
		}
	}
	return false
}

func c18Unaligned(s *C18Script) bool {
	if s.Default == "one" || s.Default == "short" {
		return true
	}
	for _, o := range s.Reads {
		if (o.Kind == "short" && o.N%188 != 0) || o.Kind == "one" {
			return true
		}
	}
	return false
}

func itoa(i int) string {
	if i == 0 {
		return "0"
	}
	neg := i < 0
	if neg {
		i = -i
	}
	var b []byte
	for i > 0 {
		b = append([]byte{byte('0' + i%10)}, b...)
		i /= 10
	}
	if neg {
		b = append([]byte{'-'}, b...)
	}
	return string(b)
}

func (c18) Shrink(script interface{}) []interface{} {
	s := script.(*C18Script)
	var out []interface{}
	cp := func() *C18Script {
		n := *s
		n.Cuts = append([]int(nil), s.Cuts...)
		n.Reads = append([]parties.ReadOp(nil), s.Reads...)
		n.Inject = append([]int(nil), s.Inject...)
		return &n
	}
	for i := range s.Inject {
		if len(s.Inject) > 1 {
			n := cp()
			n.Inject = append(n.Inject[:i], n.Inject[i+1:]...)
			out = append(out, n)
		}
		if s.Inject[i] > 1 {
			n := cp()
			n.Inject[i]--
			out = append(out, n)
		}
	}
	if s.Nest == "func" {
		n := cp()
		n.Nest = "direct"
		out = append(out, n)
	}
	if s.Repeat > 0 {
		n := cp()
		n.Repeat = 0
		out = append(out, n)
	}
	for _, p := range []int{0, 1, 2, s.Packets / 2, s.Packets - 1} {
		if p >= 0 && p < s.Packets {
			n := cp()
			n.Packets = p
			if n.Sink.FailAt >= p {
				n.Sink.FailAt = p - 1
			}
			if n.Mode == "write" {
				n.Cuts = nil
				for k := 0; k < p; k++ {
					n.Cuts = append(n.Cuts, 188)
				}
			}
			out = append(out, n)
		}
	}
	if s.Tail > 0 {
		n := cp()
		n.Tail = 0
		out = append(out, n)
		if s.Tail > 1 {
			n = cp()
			n.Tail = 1
			out = append(out, n)
		}
	}
	if s.Salt != 0 {
		n := cp()
		n.Salt = 0
		out = append(out, n)
	}
	if s.Mode == "iocopy" {
		n := cp()
		n.Mode = "readfrom"
		out = append(out, n)
	}
	if s.Adapter != "IOWriter" {
		n := cp()
		n.Adapter = "IOWriter"
		n.Sink.CloseErr = false
		out = append(out, n)
	}
	if s.Sink.FailAt >= 0 {
		n := cp()
		n.Sink.FailAt = -1
		out = append(out, n)
		if s.Sink.FailAt > 0 {
			n = cp()
			n.Sink.FailAt = 0
			out = append(out, n)
		}
	}
	if s.Sink.CloseErr {
		n := cp()
		n.Sink.CloseErr = false
		out = append(out, n)
	}
	if s.Default != "" {
		n := cp()
		n.Default = ""
		out = append(out, n)
	}
	if s.Wrap != "" {
		n := cp()
		n.Wrap = ""
		out = append(out, n)
	}
	if s.Again > 0 {
		n := cp()
		n.Again = 0
		out = append(out, n)
		if s.Again > 1 || s.Again2 != "full" {
			n = cp()
			n.Again, n.Again2 = 1, "full"
			out = append(out, n)
		}
	}
	for _, ops := range parties.ShrinkReadOps(s.Reads) {
		n := cp()
		n.Reads = ops
		out = append(out, n)
	}
	for _, keep := range core.DropChunks(len(s.Cuts)) {
		n := cp()
		n.Cuts = nil
		for _, i := range keep {
			n.Cuts = append(n.Cuts, s.Cuts[i])
		}
		out = append(out, n)
	}
	for i, cu := range s.Cuts {
		if cu > 188 {
			n := cp()
			n.Cuts[i] = 188
			out = append(out, n)
		}
	}
	return out
}
