package props

import (
	gots "github.com/Comcast/gots/v2"
	"github.com/Comcast/gots/v2/scte35"

	"verif/sim/core"
	"verif/sim/parties"
	"verif/sim/ref"
)

// Workload and fault model of C05: a well-formed multi-PID stream built from
// logical messages, then damaged by scripted faults at three layers.

type PESSpec struct {
	StreamID int      `json:"stream_id"`
	PktLen   int      `json:"pkt_len"`
	Flags1   int      `json:"flags1"`  // '10' + scrambling/priority/alignment/copyright/original
	PTSDTS   int      `json:"pts_dts"` // 0, 2, 3
	PTS      uint64   `json:"pts"`
	DTS      uint64   `json:"dts"`
	Extra    int      `json:"extra"` // extra header bytes (stuffing) counted in PES_header_data_length
	Data     core.Hex `json:"data"`
}

type EBPSpec struct {
	CableLabs bool     `json:"cablelabs"`
	Flags     int      `json:"flags"`
	ExtFlags  int      `json:"ext_flags"`
	Sap       int      `json:"sap"`
	Grouping  core.Hex `json:"grouping"` // grouping ids (CableLabs: chained with the extension bit)
	Seconds   uint32   `json:"seconds"`
	Fraction  uint32   `json:"fraction"`
	Partition int      `json:"partition"`
	Reserved  core.Hex `json:"reserved"`
	Empty     bool     `json:"empty"`
	WithPCR   bool     `json:"with_pcr"`
}

type SCTESpec struct {
	Cmd        string    `json:"cmd"` // null | time | insert
	PTS        uint64    `json:"pts"`
	Adjust     uint64    `json:"adjust"`
	Tier       int       `json:"tier"`
	Descs      []C10Desc `json:"descs"`
	Components int       `json:"components"` // >0: first descriptor uses component mode with that many components
	Foreign    core.Hex  `json:"foreign"`    // body of a foreign (non-segmentation) descriptor, if any
	// splice_insert fields
	Event      uint32 `json:"event"`
	Cancel     bool   `json:"cancel"`
	Out        bool   `json:"out"`
	Immediate  bool   `json:"immediate"`
	HasDur     bool   `json:"has_dur"`
	InsertComp int    `json:"insert_components"`
	Pointer    int    `json:"pointer"`
}

type C05Msg struct {
	Kind    string          `json:"kind"` // pat | pmt | scte | pes | ebp | null
	PID     int             `json:"pid"`
	Carrier parties.Carrier `json:"carrier"`
	Pointer int             `json:"pointer,omitempty"`
	PAT     *ref.PATSpec    `json:"pat,omitempty"`
	PMT     *ref.PMTSpec    `json:"pmt,omitempty"`
	SCTE    *SCTESpec       `json:"scte,omitempty"`
	PES     *PESSpec        `json:"pes,omitempty"`
	EBP     *EBPSpec        `json:"ebp,omitempty"`
	Salt    int             `json:"salt,omitempty"`
}

// C05Fault is one injected fault.
//
//	layer msg:    flip (bit Val of byte Off) | set (byte Off := Val) | add (byte Off += Val) | trunc (message cut at Off)
//	              Mark>=0 selects the Mark-th marked length/flag field of the message instead of Off
//	layer pkt:    drop | dup | swap (with next) | flip (bit Val of header/AF byte Sub) of packet Off
//	layer stream: trunc (at Off) | insert (byte Val at Off) | delete (byte at Off) | garbage (Val bytes prefix) | flip (bit Val at Off)
type C05Fault struct {
	Layer string `json:"layer"`
	Kind  string `json:"kind"`
	Msg   int    `json:"msg,omitempty"`
	Mark  int    `json:"mark"`
	Off   int    `json:"off"`
	Sub   int    `json:"sub,omitempty"`
	Val   int    `json:"val"`
}

type C05Script struct {
	Msgs    []C05Msg         `json:"msgs"`
	Picks   []int            `json:"picks,omitempty"`
	Faults  []C05Fault       `json:"faults,omitempty"`
	BufSize int              `json:"buf_size"`
	Reads   []parties.ReadOp `json:"reads,omitempty"`
	Default string           `json:"default_read,omitempty"`
	TruncAt int              `json:"trunc_at"` // offset used for the direct parser calls on truncated messages
	Stamp   int              `json:"stamp"`    // parameter of the re-stamper stage
	// Stress > 0: instead of the pipeline, one payload unit of Stress packets that never
	// completes is pushed through the accumulator, ReadPMT, Sync and the writer adapter;
	// total allocation must stay within a small multiple of the input size
	Stress int `json:"stress,omitempty"`
}

// mark kinds are only informative (probes); the offset is what matters
type mark struct {
	off  int
	kind string
}

func pesBytes(p *PESSpec) ([]byte, []mark) {
	b := []byte{0, 0, 1, byte(p.StreamID), byte(p.PktLen >> 8), byte(p.PktLen)}
	marks := []mark{{3, "pes_stream_id"}, {4, "pes_packet_length"}, {5, "pes_packet_length"}}
	noOpt := map[int]bool{190: true, 191: true, 240: true, 241: true, 242: true, 248: true, 255: true}
	if !noOpt[p.StreamID] {
		hl := p.Extra
		if p.PTSDTS == 2 {
			hl += 5
		} else if p.PTSDTS == 3 {
			hl += 10
		}
		b = append(b, byte(p.Flags1), byte(p.PTSDTS<<6), byte(hl))
		marks = append(marks, mark{6, "pes_flags"}, mark{7, "pes_flags"}, mark{8, "pes_header_data_length"})
		ts := func(prefix byte, v uint64) []byte {
			return []byte{prefix<<4 | byte(v>>30)&0x07<<1 | 1, byte(v >> 22), byte(v>>15)<<1 | 1, byte(v >> 7), byte(v)<<1 | 1}
		}
		if p.PTSDTS == 2 {
			b = append(b, ts(2, p.PTS)...)
		} else if p.PTSDTS == 3 {
			b = append(b, ts(3, p.PTS)...)
			b = append(b, ts(1, p.DTS)...)
		}
		for i := 0; i < p.Extra; i++ {
			b = append(b, 0xFF)
		}
	}
	b = append(b, p.Data...)
	return b, marks
}

func ebpBytes(e *EBPSpec) ([]byte, []mark) {
	tag := byte(0xA9)
	if e.CableLabs {
		tag = 0xDF
	}
	if e.Empty {
		return []byte{tag, 0}, []mark{{1, "ebp_length"}}
	}
	var body []byte
	fl := byte(e.Flags)
	if len(e.Grouping) == 0 {
		fl &^= 0x10
	}
	marks := []mark{{1, "ebp_length"}}
	if e.CableLabs {
		body = append(body, 'E', 'B', 'P', '0')
	}
	marks = append(marks, mark{2 + len(body), "ebp_flags"})
	body = append(body, fl)
	if fl&0x01 != 0 {
		marks = append(marks, mark{2 + len(body), "ebp_ext_flags"})
		body = append(body, byte(e.ExtFlags))
	}
	if fl&0x20 != 0 {
		body = append(body, byte(e.Sap))
	}
	if fl&0x10 != 0 {
		if e.CableLabs {
			for i, g := range e.Grouping {
				marks = append(marks, mark{2 + len(body), "ebp_grouping"})
				x := g & 0x7F
				if i < len(e.Grouping)-1 {
					x |= 0x80
				}
				body = append(body, x)
			}
		} else {
			marks = append(marks, mark{2 + len(body), "ebp_grouping"})
			body = append(body, e.Grouping[0])
		}
	}
	if fl&0x08 != 0 {
		body = append(body, byte(e.Seconds>>24), byte(e.Seconds>>16), byte(e.Seconds>>8), byte(e.Seconds),
			byte(e.Fraction>>24), byte(e.Fraction>>16), byte(e.Fraction>>8), byte(e.Fraction))
	}
	if e.CableLabs && fl&0x01 != 0 && e.ExtFlags&0x80 != 0 {
		body = append(body, byte(e.Partition))
	}
	body = append(body, e.Reserved...)
	return append([]byte{tag, byte(len(body))}, body...), marks
}

// scteBytes encodes the spec with the library's own encoder (the encoder is
// not the subject of C05, it only supplies well-formed input) and locates the
// length fields by the SCTE 35 layout.
func scteBytes(sp *SCTESpec) (out []byte, marks []mark) {
	defer func() {
		if r := recover(); r != nil {
			out, marks = nil, nil
		}
	}()
	sc := scte35.CreateSCTE35()
	sc.SetTier(uint16(sp.Tier))
	switch sp.Cmd {
	case "time":
		cmd := scte35.CreateTimeSignalCommand()
		cmd.SetHasPTS(true)
		sc.SetCommandInfo(cmd)
		cmd.SetPTS(gots.PTS(sp.PTS & 0x1ffffffff))
		sc.SetAdjustPTS(gots.PTS((sp.PTS + sp.Adjust) & 0x1ffffffff))
	case "insert":
		cmd := scte35.CreateSpliceInsertCommand()
		cmd.SetEventID(sp.Event)
		cmd.SetIsEventCanceled(sp.Cancel)
		cmd.SetIsOut(sp.Out)
		cmd.SetIsProgramSplice(sp.InsertComp == 0)
		cmd.SetSpliceImmediate(sp.Immediate)
		cmd.SetHasPTS(!sp.Immediate)
		cmd.SetPTS(gots.PTS(sp.PTS & 0x1ffffffff))
		cmd.SetHasDuration(sp.HasDur)
		cmd.SetDuration(gots.PTS(sp.Adjust & 0x1ffffffff))
		cmd.SetIsAutoReturn(sp.Out)
		cmd.SetUniqueProgramId(uint16(sp.Event))
		cmd.SetAvailNum(1)
		cmd.SetAvailsExpected(2)
		sc.SetCommandInfo(cmd)
		sc.SetAdjustPTS(gots.PTS((sp.PTS + sp.Adjust) & 0x1ffffffff))
	}
	var ds []scte35.SegmentationDescriptor
	for i, d := range sp.Descs {
		_, one := c10Build(C10Signal{Descs: []C10Desc{d}}, 0)
		x := one[0]
		if i == 0 && sp.Components > 0 {
			x.SetHasProgramSegmentation(false)
			var cs []scte35.ComponentOffset
			for k := 0; k < sp.Components; k++ {
				co := scte35.CreateComponentOffset()
				co.SetComponentTag(byte(k + 1))
				co.SetPTSOffset(gots.PTS(uint64(k) * 1000))
				cs = append(cs, co)
			}
			x.SetComponents(cs)
		}
		if d.VSS == "" && d.Event%3 == 0 {
			x.SetUPIDType(scte35.SegUPIDADI)
			x.SetUPID([]byte("urn:upid:" + itoa(int(d.Event))))
		}
		ds = append(ds, x)
	}
	sc.SetDescriptors(ds)
	data := sc.UpdateData()
	out = append([]byte(nil), data...)
	// marks by layout: table header, fixed fields, command, descriptor loop
	marks = append(marks, mark{0, "table_id"}, mark{1, "section_length"}, mark{2, "section_length"}, mark{4, "encrypted_flag"},
		mark{11, "splice_command_length"}, mark{12, "splice_command_length"}, mark{13, "splice_command_type"}, mark{14, "command_first_byte"})
	cmdLen := int(out[11]&0x0f)<<8 | int(out[12])
	dl := 14 + cmdLen
	if dl+2 <= len(out) {
		marks = append(marks, mark{dl, "descriptor_loop_length"}, mark{dl + 1, "descriptor_loop_length"})
		loop := int(out[dl])<<8 | int(out[dl+1])
		p := dl + 2
		for p+2 <= len(out) && p < dl+2+loop {
			marks = append(marks, mark{p, "splice_descriptor_tag"}, mark{p + 1, "splice_descriptor_length"})
			l := int(out[p+1])
			if out[p] == 0x02 && l >= 11 {
				// identifier(4) event_id(4) cancel(1) flags(1) ...
				marks = append(marks, mark{p + 10, "seg_cancel"}, mark{p + 11, "seg_flags"})
				q := p + 12
				fl := out[p+11]
				if fl&0x80 == 0 && q < len(out) {
					marks = append(marks, mark{q, "component_count"})
					q += 1 + 6*int(out[q])
				}
				if fl&0x40 != 0 {
					q += 5
				}
				if q+1 < len(out) {
					marks = append(marks, mark{q, "seg_upid_type"}, mark{q + 1, "seg_upid_length"})
					if out[q] == 0x0D && q+3 < len(out) {
						marks = append(marks, mark{q + 2, "mid_upid_type"}, mark{q + 3, "mid_upid_length"})
					}
					q += 2 + int(out[q+1])
					if q < len(out) {
						marks = append(marks, mark{q, "seg_type_id"})
					}
				}
			}
			p += 2 + l
		}
	}
	return out, marks
}

// pmtMarks locates the length fields of a PMT section.
func pmtMarks(sec []byte) []mark {
	m := []mark{{0, "table_id"}, {1, "section_length"}, {2, "section_length"}, {10, "program_info_length"}, {11, "program_info_length"}}
	if len(sec) < 16 {
		return m
	}
	pil := int(sec[10]&0x0f)<<8 | int(sec[11])
	p := 12
	for q := p; q+2 <= 12+pil && q+2 <= len(sec); {
		m = append(m, mark{q + 1, "descriptor_length"})
		q += 2 + int(sec[q+1])
	}
	p = 12 + pil
	for p+5 <= len(sec)-4 {
		m = append(m, mark{p, "stream_type"}, mark{p + 3, "es_info_length"}, mark{p + 4, "es_info_length"})
		eil := int(sec[p+3]&0x0f)<<8 | int(sec[p+4])
		for q := p + 5; q+2 <= p+5+eil && q+2 <= len(sec); {
			m = append(m, mark{q, "descriptor_tag"}, mark{q + 1, "descriptor_length"})
			q += 2 + int(sec[q+1])
		}
		p += 5 + eil
	}
	return m
}

// msgBytes builds the logical payload of a message (before packetisation)
// and its marks. For "ebp" the payload is a PES start; the EBP goes into the
// adaptation field of the carrying packet.
func msgBytes(m *C05Msg) ([]byte, []mark) {
	shift := func(ms []mark, by int) []mark {
		for i := range ms {
			ms[i].off += by
		}
		return ms
	}
	ptr := m.Pointer
	if ptr < 0 {
		ptr = 0
	}
	if ptr > 100 {
		ptr = 100
	}
	switch m.Kind {
	case "pat":
		sec := m.PAT.Section()
		return ref.Payload(ptr, [][]byte{sec}, 0), append([]mark{{0, "pointer_field"}}, shift([]mark{{0, "table_id"}, {1, "section_length"}, {2, "section_length"}}, 1+ptr)...)
	case "pmt":
		sec := m.PMT.Section()
		return ref.Payload(ptr, [][]byte{sec}, 0), append([]mark{{0, "pointer_field"}}, shift(pmtMarks(sec), 1+ptr)...)
	case "scte":
		sec, ms := scteBytes(m.SCTE)
		if sec == nil {
			return nil, nil
		}
		return ref.Payload(ptr, [][]byte{sec}, 0), append([]mark{{0, "pointer_field"}}, shift(ms, 1+ptr)...)
	case "pes", "ebp":
		return pesBytes(m.PES)
	}
	return nil, nil
}

// ---------------------------------------------------------------------------
// generator

func genPES(r *core.Rand) *PESSpec {
	p := &PESSpec{StreamID: r.Pick(0xE0, 0xE0, 0xC0, 0xBD, 190, 191, 240, 255, r.Intn(256)), PktLen: r.Pick(0, 0, 100, 65535), Flags1: 0x80 | r.Intn(16),
		PTSDTS: r.Pick(0, 2, 2, 3), PTS: r.U64() & 0x1ffffffff, DTS: r.U64() & 0x1ffffffff, Extra: r.Pick(0, 0, 1, 5)}
	p.Data = r.Bytes(r.Pick(0, 1, 20, 150, 300))
	return p
}

func genEBP(r *core.Rand) *EBPSpec {
	e := &EBPSpec{CableLabs: r.Bool(), Flags: r.Intn(256), ExtFlags: r.Pick(0, 0x80, r.Intn(256)), Sap: r.Intn(256) & 0xE0,
		Seconds: uint32(r.U64()), Fraction: uint32(r.U64()), Partition: r.Intn(256), Empty: r.Chance(1, 12), WithPCR: r.Bool()}
	if e.Flags&0x10 != 0 {
		e.Grouping = r.Bytes(r.Pick(1, 1, 2, 4))
		if r.Bool() {
			e.Grouping[0] = byte(r.Pick(0x1C, 0x1D))
		}
	}
	e.Reserved = r.Bytes(r.Pick(0, 0, 1, 3))
	return e
}

func genSCTE(r *core.Rand) *SCTESpec {
	s := &SCTESpec{Cmd: r.PickS("time", "time", "time", "insert", "null"), PTS: r.U64() & 0x1ffffffff, Adjust: uint64(r.Pick(0, 0, 1000, 1<<32)), Tier: r.Pick(0xFFF, 0xFFF, r.Intn(4096)),
		Event: uint32(r.U64()), Cancel: r.Chance(1, 8), Out: r.Bool(), Immediate: r.Chance(1, 4), HasDur: r.Bool(), InsertComp: r.Pick(0, 0, 0, 2), Pointer: r.Pick(0, 0, 0, 3)}
	for i := r.Pick(0, 1, 1, 2, 3); i > 0; i-- {
		d := C10Desc{Type: c10Types[r.Intn(len(c10Types))], Event: uint32(r.Range(1, 9)), SegNum: r.Intn(3), SegExp: r.Intn(3)}
		if (d.Type == 0x34 || d.Type == 0x36) && r.Bool() {
			d.Sub, d.SubNum, d.SubExp = true, 1, 2
		}
		if r.Chance(1, 3) {
			d.Dur = int64(r.Pick(1, 90000, 0xFFFFFFFFF))
		}
		if r.Chance(1, 4) {
			d.VSS = r.PickS("a", "Sq+kY9muQderGNiNtOoN6w==", "a", c10RawVSS[r.Intn(len(c10RawVSS))])
		}
		s.Descs = append(s.Descs, d)
	}
	if len(s.Descs) > 0 && r.Chance(1, 4) {
		s.Components = r.Pick(1, 2, 5)
	}
	return s
}

func genCarrier(r *core.Rand, pid int) parties.Carrier {
	c := parties.Carrier{PID: pid, CC: r.Intn(16)}
	for i := r.Pick(0, 0, 1, 3, 6); i > 0; i-- {
		c.Sizes = append(c.Sizes, r.Pick(1, 2, 3, 4, 17, 100, 183, 184))
		c.Styles = append(c.Styles, r.PickS("af", "af", "afpcr", "afrai", "ff"))
	}
	return c
}

func c05Gen(r *core.Rand) *C05Script {
	s := &C05Script{BufSize: r.Pick(16, 188, 4096), TruncAt: r.Intn(300), Stamp: r.Intn(1 << 16)}
	if r.Chance(1, 400) {
		s.Stress = r.Pick(300, 1000, 2500, 4000)
		return s
	}
	pmtPid := r.Pick(0x20, 0x64, 0x1F0, r.Range(0x20, 0x1FFE))
	videoPid, audioPid, sctePid := 0x100, 0x101, 0x1F5
	pm := genPMT(r, 12)
	// make the PMT describe the stream: video, audio, scte35
	vd := pm.ProgDescs
	if len(vd) > 2 {
		vd = vd[:2]
	}
	pm.Streams = append([]ref.ES{{Type: 0x1B, PID: videoPid, Descs: vd}, {Type: 0x0F, PID: audioPid, Descs: []ref.Desc{{Tag: 10, Body: []byte("eng\x00")}}}, {Type: 0x86, PID: sctePid}}, pm.Streams...)
	// extra descriptors of the kinds whose decoders index into the body
	if r.Bool() {
		pm.Streams[1].Descs = append(pm.Streams[1].Descs, ref.Desc{Tag: 0xCC, Body: r.Bytes(r.Pick(2, 3, 8, 20))}, ref.Desc{Tag: 0xE9, Body: r.Bytes(r.Pick(1, 2, 6, 12))})
	}
	for pm.SectionLength() > 1021 {
		switch {
		case len(pm.Streams) > 3:
			pm.Streams = pm.Streams[:len(pm.Streams)-1]
		case len(pm.ProgDescs) > 0:
			pm.ProgDescs = pm.ProgDescs[:len(pm.ProgDescs)-1]
		default:
			pm.Streams[0].Descs = nil
		}
	}
	pat := &ref.PATSpec{TSID: 1, Version: r.Intn(32), Reserved: 7, Entries: []ref.PATEntry{{Program: r.Range(1, 9), PID: pmtPid}}}
	if r.Chance(1, 5) {
		pat.Entries = append([]ref.PATEntry{{Program: 0, PID: 0x10}}, pat.Entries...)
	}
	add := func(m C05Msg) { s.Msgs = append(s.Msgs, m) }
	add(C05Msg{Kind: "pat", PID: 0, PAT: pat, Carrier: parties.Carrier{PID: 0, Styles: []string{"ff"}}})
	add(C05Msg{Kind: "pmt", PID: pmtPid, PMT: &pm, Pointer: r.Pick(0, 0, 0, 5), Carrier: genCarrier(r, pmtPid)})
	n := r.Pick(2, 4, 6, 10)
	for i := 0; i < n; i++ {
		switch r.Intn(6) {
		case 0, 1:
			add(C05Msg{Kind: "pes", PID: r.Pick(videoPid, audioPid), PES: genPES(r), Carrier: genCarrier(r, 0), Salt: i})
		case 2:
			add(C05Msg{Kind: "ebp", PID: videoPid, PES: genPES(r), EBP: genEBP(r), Salt: i})
		case 3, 4:
			sp := genSCTE(r)
			add(C05Msg{Kind: "scte", PID: sctePid, SCTE: sp, Pointer: sp.Pointer, Carrier: genCarrier(r, sctePid)})
		default:
			add(C05Msg{Kind: "null", PID: 0x1FFF, Salt: i})
		}
	}
	for i := range s.Msgs {
		s.Msgs[i].Carrier.PID = s.Msgs[i].PID
	}
	for i := r.Range(0, 40); i > 0; i-- {
		s.Picks = append(s.Picks, r.Intn(6))
	}
	style := r.PickS("full", "full", "frag", "mixed")
	s.Reads = parties.GenReadOps(r, r.Range(0, 20), style, r.Chance(1, 10))
	// faults: 0..4
	nf := r.Pick(0, 1, 1, 1, 2, 2, 3, 4)
	for i := 0; i < nf; i++ {
		var f C05Fault
		switch r.Intn(10) {
		case 0, 1, 2, 3: // length/flag field of a message
			f = C05Fault{Layer: "msg", Msg: r.Intn(len(s.Msgs)), Mark: r.Intn(64), Kind: r.PickS("flip", "flip", "set", "set", "add"), Val: 0}
			switch f.Kind {
			case "flip":
				f.Val = r.Intn(8)
			case "set":
				f.Val = r.Pick(0, 1, 0xFF, 0x7F, 0x80, 0x0D, r.Intn(256))
			case "add":
				f.Val = r.Pick(1, -1, 2, -2, 6, 16)
			}
		case 4: // uniform damage in a message
			f = C05Fault{Layer: "msg", Msg: r.Intn(len(s.Msgs)), Mark: -1, Off: r.Intn(400), Kind: r.PickS("flip", "set"), Val: r.Intn(8)}
			if f.Kind == "set" {
				f.Val = r.Intn(256)
			}
		case 5: // truncated message
			f = C05Fault{Layer: "msg", Msg: r.Intn(len(s.Msgs)), Mark: -1, Off: r.Pick(0, 1, 2, 3, 4, 8, 12, r.Intn(300)), Kind: "trunc"}
		case 6, 7: // packet level
			f = C05Fault{Layer: "pkt", Mark: -1, Off: r.Intn(40), Kind: r.PickS("drop", "dup", "swap", "flip", "flip", "flip"), Sub: r.Pick(0, 1, 2, 3, 3, 4, 4, 5, 5, r.Intn(24)), Val: r.Intn(8)}
		default: // stream level
			f = C05Fault{Layer: "stream", Mark: -1, Off: r.Intn(64 * 188), Kind: r.PickS("trunc", "trunc", "insert", "delete", "garbage", "flip"), Val: r.Intn(256)}
			if f.Kind == "garbage" {
				f.Val = r.Pick(1, 3, 4, 47, 187, 189)
			}
			if f.Kind == "flip" {
				f.Val = r.Intn(8)
			}
		}
		s.Faults = append(s.Faults, f)
	}
	return s
}
