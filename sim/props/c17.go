package props

import (
	"bytes"
	"fmt"

	gots "github.com/Comcast/gots/v2"
	"github.com/Comcast/gots/v2/packet"

	"verif/sim/core"
	"verif/sim/parties"
)

// C17 - payload accumulator under any operation history, with failing /
// flapping predicates, payload-less packets, caller buffer reuse and reset.

type C17Op struct {
	Op    string `json:"op"`              // write | reset | reuse | scribble
	Class string `json:"class,omitempty"` // pay | afpay | afonly | afbad | afc0
	PUSI  bool   `json:"pusi,omitempty"`
	AFLen int    `json:"af_len,omitempty"`
	Ser   int    `json:"ser,omitempty"`
	// PID != 0: the packet's PID (default: 0x30 + Ser%7). An accumulator takes what it is given;
	// which PID that is - the null PID 0x1FFF and PID 0 (written as 0x2000) included - is the caller's business
	PID int `json:"pid,omitempty"`
	// TSC: transport_scrambling_control (2 bits). Where the payload starts does not depend on it.
	TSC int `json:"tsc,omitempty"`
}

// PredSpec is a completion predicate that is a pure function of the bytes it
// is shown (so the oracle does not depend on how often it is evaluated).
//
//	threshold  done iff len >= N
//	never / always
//	errwin     injected error while N <= len < M, else threshold T
//	flap       done iff len%N == M%N (true, then false again when more arrives)
type PredSpec struct {
	Kind string `json:"kind"`
	N    int    `json:"n,omitempty"`
	M    int    `json:"m,omitempty"`
	T    int    `json:"t,omitempty"`
}

type C17Script struct {
	Pred PredSpec `json:"pred"`
	Ops  []C17Op  `json:"ops"`
}

type c17 struct{}

func init() { core.Register(c17{}) }

func (c17) ID() string       { return "C17" }
func (c17) New() interface{} { return &C17Script{} }
func (c17) Info() core.Info {
	return core.Info{
		Runs: map[string]int{"quick": 1500000, "thorough": 100000000},
		Rule: "Each run is one scripted caller history (<=60 operations: WritePacket of payload-only / AF+payload (AF length 0..183) / AF-only / AF-overrunning packets with or without unit start, Reset, overwrite of the caller's packet buffer after hand-over, scribbling on returned Bytes()/Packets() slices) on a real accumulator with a scripted predicate (threshold, never, always, error window, flapping); Bytes() and Packets() are compared with a 3-state reference model after every operation and a fresh accumulator runs in lock-step after every Reset; plus a complete sweep of all histories of length <=6 over an 8-letter alphabet with a threshold predicate. Non-trivial = at least one reach probe fired. Added in waves 20-22: adaptation_field_length 184..255 for overrunning packets; the caller appends a packet of its own to the list Packets() returned; a predicate that resets its own accumulator and answers not-done (afterwards nothing is held, a continuation packet is refused, the next unit start begins a unit).",
		Real: []string{"packet.NewAccumulator", "(*accumulator).WritePacket/Bytes/Packets/Reset", "packet.Payload", "packet.PayloadUnitStartIndicator"},
		Stub: []string{"caller (scripted operation history, buffer reuse)", "predicate (scripted, pure in the bytes)", "packet source"},
		Assumptions: []string{
			"whether a payload-less packet (reported as an error, contributing no bytes) is listed by Packets() is left open by the statement: either is accepted, consistently within a run",
			"a packet with payload_unit_start_indicator but without payload is a unit start (it discards what came before and later continuation packets are accepted) and is itself reported as an error",
			"lists and byte slices returned earlier must keep their contents whatever is done to the accumulator afterwards (independent copies)",
			"only slice-level independence of Packets() is demanded",
			"a predicate result (true, err) with err != nil is an error and not a completion (Go convention: other results mean nothing next to a non-nil error)",
		},
		RequiredProbes: []string{"payload_all_ff", "pred_err_is_done_sentinel", "very_long_unit", "reserved_afc_packet", "pusi_without_payload", "held_results_checked", "second_pusi_restart", "refused_before_start", "write_after_done", "pred_err", "nopayload_packet", "reset_mid", "buffer_reused", "scribbled", "done_at_first_packet", "empty_payload_packet", "af_overrun_packet", "pred_err_with_done_true", "reset_after_unit_of_268_packets_or_more", "same_packet_written_twice", "packet_on_the_null_pid", "scrambled_packet_with_adaptation_field"},
	}
}

func c17Packet(op C17Op) (packet.Packet, []byte, bool) {
	p, pay, has := c17PacketBase(op)
	p[3] |= byte(op.TSC&3) << 6
	return p, pay, has
}

func c17PacketBase(op C17Op) (packet.Packet, []byte, bool) {
	var p packet.Packet
	p[0] = 0x47
	pid := 0x30 + op.Ser%7
	if op.PID != 0 {
		pid = op.PID & 0x1FFF
	}
	p[1] = byte(pid >> 8)
	if op.PUSI {
		p[1] |= 0x40
	}
	p[2] = byte(pid)
	cc := byte(op.Ser & 0x0f)
	fill := func(from int) {
		for k := from; k < 188; k++ {
			p[k] = byte(op.Ser*17 + k*3 + 1)
		}
		if from+3 <= 188 {
			p[from], p[from+1], p[from+2] = byte(op.Ser>>8), byte(op.Ser), 0xA5
		}
	}
	switch op.Class {
	case "afpay":
		l := op.AFLen
		if l < 0 {
			l = 0
		}
		if l > 183 {
			l = 183
		}
		p[3] = 0x30 | cc
		p[4] = byte(l)
		if l >= 1 {
			p[5] = 0
			for k := 6; k < 5+l; k++ {
				p[k] = 0xFF
			}
		}
		fill(5 + l)
		return p, append([]byte(nil), p[5+l:]...), true
	case "afonly":
		p[3] = 0x20 | cc
		p[4] = 183
		p[5] = 0
		for k := 6; k < 188; k++ {
			p[k] = 0xFF
		}
		return p, nil, false
	case "payff":
		// payload-only packet whose 184 payload bytes are all 0xFF (looks like stuffing, is data)
		p[3] = 0x10 | cc
		for k := 4; k < 188; k++ {
			p[k] = 0xFF
		}
		return p, append([]byte(nil), p[4:]...), true
	case "afc0":
		// reserved adaptation_field_control 00: neither adaptation field nor payload
		p[3] = cc
		fill(4)
		return p, nil, false
	case "afbad":
		l := op.AFLen
		if l < 184 {
			l = 184
		}
		if l > 255 {
			l = 255
		}
		p[3] = 0x30 | cc
		p[4] = byte(l)
		fill(5)
		return p, nil, false
	default:
		p[3] = 0x10 | cc
		fill(4)
		return p, append([]byte(nil), p[4:]...), true
	}
}

func c17GenOp(r *core.Rand, ser int, hasPayloadPUSI bool) C17Op {
	switch r.Intn(20) {
	case 0:
		return C17Op{Op: "reset"}
	case 1:
		return C17Op{Op: "reuse"}
	case 2:
		return C17Op{Op: r.PickS("scribble", "scribble", "append")}
	}
	op := C17Op{Op: "write", Ser: ser}
	switch r.Intn(12) {
	case 11:
		op.Class = "payff"
	case 10:
		op.Class = "afc0"
	case 0:
		op.Class = "afonly"
	case 1:
		op.Class = "afbad"
		op.AFLen = r.Pick(184, 185, 200, 250, 251, 255, r.Range(184, 255))
	case 2, 3, 4:
		op.Class = "afpay"
		op.AFLen = r.Pick(0, 1, 2, 7, 100, 180, 181, 182, 183, r.Range(0, 183))
	default:
		op.Class = "pay"
	}
	if op.Class == "pay" || op.Class == "afpay" || op.Class == "payff" {
		op.PUSI = r.Chance(1, 4)
	} else {
		// a unit start on a packet without payload: reported as an error, but it is a unit
		// start (discards what came before; continuation packets are accepted afterwards)
		op.PUSI = r.Chance(1, 5)
	}
	return op
}

func (c17) Gen(r *core.Rand, tier string) interface{} {
	s := &C17Script{}
	switch r.Intn(8) {
	case 0:
		s.Pred = PredSpec{Kind: "never"}
	case 1:
		s.Pred = PredSpec{Kind: "always"}
	case 2:
		s.Pred = PredSpec{Kind: r.PickS("errwin", "errwin", "errdone", "errtrue"), N: r.Range(0, 300), T: r.Range(1, 900)}
		s.Pred.M = s.Pred.N + r.Range(1, 400)
	case 3:
		s.Pred = PredSpec{Kind: "flap", N: r.Pick(2, 3, 184, 368), M: r.Range(0, 400)}
		if r.Bool() {
			s.Pred = PredSpec{Kind: "prefix"}
		}
	default:
		s.Pred = PredSpec{Kind: "threshold", N: r.Pick(0, 1, 184, 185, 368, 500, 1000, r.Range(1, 1500))}
	}
	n := r.Pick(1, 2, 3, 4, 6, 10, 20, 40, 60)
	if tier == "thorough" && r.Chance(1, 8) {
		n = r.Pick(100, 200, 400)
	}
	if r.Chance(1, 4000) {
		// one unit of more than 1 MiB: limits that only large sizes reach
		s.Pred = PredSpec{Kind: "never"}
		s.Ops = append(s.Ops, C17Op{Op: "write", Class: "pay", PUSI: true, Ser: 0})
		for i := 1; i < 6200; i++ {
			s.Ops = append(s.Ops, C17Op{Op: "write", Class: "pay", Ser: i})
		}
		c17Tail(r, s)
		return s
	}
	if r.Chance(1, 3000) {
		// a unit of a few hundred packets (tens of KiB), then what a caller does next
		s.Pred = PredSpec{Kind: "never"}
		s.Ops = append(s.Ops, C17Op{Op: "write", Class: "pay", PUSI: true, Ser: 0})
		for i, m := 1, r.Pick(180, 270, 290, 360, 700); i < m; i++ {
			s.Ops = append(s.Ops, C17Op{Op: "write", Class: "pay", Ser: i})
		}
		c17Tail(r, s)
		return s
	}
	// most histories start a unit early so that they make progress
	for i := 0; i < n; i++ {
		op := c17GenOp(r, i, true)
		if i == 0 && r.Chance(2, 3) && op.Op == "write" && (op.Class == "pay" || op.Class == "afpay") {
			op.PUSI = true
		}
		if i > 0 && r.Chance(1, 12) && s.Ops[i-1].Op == "write" {
			// the same packet once more, byte for byte (a duplicate packet as ISO 13818-1
			// allows, or a caller feeding the same buffer twice): a packet like any other
			op = s.Ops[i-1]
		}
		s.Ops = append(s.Ops, op)
	}
	if r.Chance(1, 6) {
		for i := range s.Ops {
			s.Ops[i].TSC = r.Intn(4) // scrambled packets
		}
	}
	// swarm: which PIDs the packets are on
	switch r.Intn(8) {
	case 0:
		for i := range s.Ops {
			s.Ops[i].PID = 0x1FFF
		}
	case 1:
		for i := range s.Ops {
			if i%3 == 1 {
				s.Ops[i].PID = 0x1FFF
			}
		}
	case 2:
		pid := r.Pick(0x2000, 1, 0x10, 0x1FFE, r.Range(1, 0x1FFE))
		for i := range s.Ops {
			s.Ops[i].PID = pid
		}
	}
	return s
}

// c17Tail: after a large unit - reset, look at the accumulator straight away, offer packets it
// must refuse, reset again, start the next unit.
func c17Tail(r *core.Rand, s *C17Script) {
	if r.Chance(1, 4) {
		return
	}
	s.Ops = append(s.Ops, C17Op{Op: "reset"})
	for k := r.Pick(0, 0, 1, 2); k > 0; k-- {
		if r.Bool() {
			s.Ops = append(s.Ops, C17Op{Op: "write", Class: "pay", Ser: 9000 + k})
		} else {
			s.Ops = append(s.Ops, C17Op{Op: "reset"})
		}
	}
	if r.Bool() {
		s.Ops = append(s.Ops, C17Op{Op: "write", Class: "pay", PUSI: true, Ser: 9100}, C17Op{Op: "write", Class: "pay", Ser: 9101})
	}
}

// sweep alphabet (threshold 300: done in the second full packet)
var c17Alpha = []C17Op{
	{Op: "write", Class: "pay", PUSI: true},
	{Op: "write", Class: "pay"},
	{Op: "write", Class: "afpay", AFLen: 100},
	{Op: "write", Class: "afonly"},
	{Op: "reset"},
	{Op: "write", Class: "afpay", AFLen: 183, PUSI: true},
	{Op: "scribble"},
	{Op: "write", Class: "afonly", PUSI: true},
}

var c17SweepN = func() int {
	n, p := 0, 1
	for l := 1; l <= 6; l++ {
		p *= len(c17Alpha)
		n += p
	}
	return n
}()

func (c17) SweepSize(tier string) int { return c17SweepN }

func (c17) SweepCase(tier string, i int) interface{} {
	l, p := 1, len(c17Alpha)
	for i >= p {
		i -= p
		l++
		p *= len(c17Alpha)
	}
	s := &C17Script{Pred: PredSpec{Kind: "threshold", N: 300}}
	for k := 0; k < l; k++ {
		op := c17Alpha[i%len(c17Alpha)]
		i /= len(c17Alpha)
		op.Ser = k
		s.Ops = append(s.Ops, op)
	}
	return s
}

func (c17) Size(script interface{}) int { return len(script.(*C17Script).Ops) }

type c17Pred struct {
	spec   PredSpec
	expect *[]byte // the model's accumulated bytes at the time of the call
	bad    string
	nerr   int
	lastE  error
}

func (p *c17Pred) eval(b []byte) (bool, error) {
	switch p.spec.Kind {
	case "never":
		return false, nil
	case "always":
		return true, nil
	case "errwin":
		if len(b) >= p.spec.N && len(b) < p.spec.M {
			return false, &parties.InjectedErr{ID: 3000 + len(b)}
		}
		return len(b) >= p.spec.T, nil
	case "prefix":
		// a verdict that depends on the content, the way a section length in the first bytes
		// decides completeness: the second byte of the unit says how many full payloads it takes
		if len(b) < 2 {
			return false, nil
		}
		return len(b) >= 184*(1+int(b[1])%3), nil
	case "errtrue":
		// an error together with done=true: by Go convention the other result means nothing
		// when the error is not nil - the error is propagated and nothing is complete
		if len(b) >= p.spec.N && len(b) < p.spec.M {
			return true, &parties.InjectedErr{ID: 3000 + len(b)}
		}
		return len(b) >= p.spec.T, nil
	case "errdone":
		// a predicate is free to fail with any error value - also with the library's own sentinel
		if len(b) >= p.spec.N && len(b) < p.spec.M {
			return false, gots.ErrAccumulatorDone
		}
		return len(b) >= p.spec.T, nil
	case "flap":
		n := p.spec.N
		if n < 1 {
			n = 1
		}
		return len(b)%n == p.spec.M%n, nil
	}
	return len(b) >= p.spec.N, nil
}

func (p *c17Pred) f(b []byte) (bool, error) {
	same := false
	if p.expect != nil && len(b) > 100000 && len(b) == len(*p.expect) {
		// very long units: compare the tail only here (the full comparison happens in check())
		same = bytes.Equal(b[len(b)-256:], (*p.expect)[len(b)-256:])
	} else if p.expect != nil {
		same = bytes.Equal(b, *p.expect)
	}
	if p.expect != nil && !same {
		p.bad = fmt.Sprintf("predicate shown %d bytes, accumulated payload is %d bytes", len(b), len(*p.expect))
	}
	d, err := p.eval(b)
	if err != nil {
		p.nerr++
		p.lastE = err
	}
	return d, err
}

func (c17) Exec(script interface{}, c *core.Ctx) {
	s := script.(*C17Script)
	// model
	const (
		idle = iota
		accumulating
		done
	)
	state := idle
	var mbuf []byte
	var mpk []packet.Packet    // strict list: packets with payload
	var mpkAll []packet.Packet // list including payload-less packets
	listsNoPayload := -1       // unknown / 0 / 1
	pendingForPred := []byte(nil)

	pred := &c17Pred{spec: s.Pred, expect: &pendingForPred}
	acc := packet.NewAccumulator(pred.f)
	var shadow packet.Accumulator
	var spred *c17Pred
	// a bystander: another accumulator alive in the same process (one per PID is the normal
	// way to demultiplex); whatever happens to the accumulator under test must not show there
	byPkt, byPay, _ := c17Packet(C17Op{Op: "write", Class: "pay", PUSI: true, Ser: 7777})
	bystander := packet.NewAccumulator(func([]byte) (bool, error) { return false, nil })
	if !c.Call("Accumulator.WritePacket(bystander)", func() { bystander.WritePacket(&byPkt) }) {
		return
	}
	checkBystander := func() bool {
		var b []byte
		var ps []*packet.Packet
		if !c.Call("Accumulator.Bytes/Packets(bystander)", func() { b = bystander.Bytes(); ps = bystander.Packets() }) {
			return false
		}
		if !bytes.Equal(b, byPay) || len(ps) != 1 || ps[0] == nil || *ps[0] != byPkt {
			c.Fail("accumulators_independent", "another_accumulator_changed", fmt.Sprintf("%d bytes, %d packets", len(b), len(ps)), "its own single packet")
			return false
		}
		return true
	}
	var callerBuf packet.Packet
	var lastBytes []byte
	var lastPkts []*packet.Packet
	// results handed out earlier: they are independent copies, so whatever happens to the
	// accumulator later (unit start, reset, new packets) must not change them
	type heldResult struct {
		b, bsnap []byte
		ps       []*packet.Packet
		psnap    []packet.Packet
	}
	var held []heldResult
	// lists the caller appended a packet of its own to: that element is the caller's
	var appendedTo [][]*packet.Packet
	callersOwn := &packet.Packet{0x47, 0x1F, 0xFF, 0x10, 'o', 'w', 'n'}
	checkHeld := func() bool {
		for _, l := range appendedTo {
			if l[len(l)-1] != callersOwn {
				c.Fail("packets_independent", "element_the_caller_appended_to_a_returned_list_was_overwritten", "another packet", "the caller's packet")
				return false
			}
		}
		for _, h := range held {
			if !bytes.Equal(h.b, h.bsnap) {
				c.Fail("bytes_independent", "earlier_bytes_result_changed", "changed", "unchanged")
				return false
			}
			for i, p := range h.ps {
				if p == nil || *p != h.psnap[i] {
					c.Fail("packets_independent", "earlier_packets_result_changed", i, "unchanged")
					return false
				}
			}
		}
		if len(held) > 0 {
			c.Probe("held_results_checked")
		}
		return true
	}
	c.Log("c17 pred=%s n=%d m=%d t=%d ops=%d", s.Pred.Kind, s.Pred.N, s.Pred.M, s.Pred.T, len(s.Ops))
	c.Unit("operations", int64(len(s.Ops)))

	check := func(a packet.Accumulator, who string) bool {
		var b []byte
		var ps []*packet.Packet
		if !c.Call("Accumulator.Bytes", func() { b = a.Bytes() }) {
			return false
		}
		if !c.Call("Accumulator.Packets", func() { ps = a.Packets() }) {
			return false
		}
		if !bytes.Equal(b, mbuf) {
			c.Fail("bytes", who+"bytes_differ_from_model", fmt.Sprintf("%d bytes", len(b)), fmt.Sprintf("%d bytes", len(mbuf)))
			return false
		}
		eq := func(want []packet.Packet) bool {
			if len(ps) != len(want) {
				return false
			}
			for i := range ps {
				if ps[i] == nil || *ps[i] != want[i] {
					return false
				}
			}
			return true
		}
		switch {
		case len(mpk) == len(mpkAll):
			if !eq(mpk) {
				c.Fail("packets", who+"packets_differ_from_model", len(ps), len(mpk))
				return false
			}
		case listsNoPayload == 0:
			if !eq(mpk) {
				c.Fail("packets", who+"packets_differ_from_model", len(ps), len(mpk))
				return false
			}
		case listsNoPayload == 1:
			if !eq(mpkAll) {
				c.Fail("packets", who+"packets_differ_from_model", len(ps), len(mpkAll))
				return false
			}
		default:
			if eq(mpk) {
				listsNoPayload = 0
			} else if eq(mpkAll) {
				listsNoPayload = 1
			} else {
				c.Fail("packets", who+"packets_differ_from_model", len(ps), fmt.Sprintf("%d or %d", len(mpk), len(mpkAll)))
				return false
			}
		}
		if who == "" {
			lastBytes, lastPkts = b, ps
			h := heldResult{b: b, bsnap: append([]byte(nil), b...), ps: append([]*packet.Packet(nil), ps...)}
			for _, p := range ps {
				h.psnap = append(h.psnap, *p)
			}
			held = append(held, h)
			if len(held) > 4 {
				held = held[1:]
			}
		}
		return true
	}

	long := len(s.Ops) > 1500
	if long {
		c.Probe("very_long_unit")
	}
	for i, op := range s.Ops {
		c.SetStep(i)
		switch op.Op {
		case "reset":
			if state != idle || len(mbuf) > 0 {
				c.Probe("reset_mid")
			}
			if len(mpkAll) >= 268 {
				c.Probe("reset_after_unit_of_268_packets_or_more")
			}
			if !c.Call("Accumulator.Reset", func() { acc.Reset() }) {
				return
			}
			state, mbuf, mpk, mpkAll = idle, nil, nil, nil
			spred = &c17Pred{spec: s.Pred, expect: &pendingForPred}
			shadow = packet.NewAccumulator(spred.f)
			c.Log("reset")
		case "reuse":
			for k := range callerBuf {
				callerBuf[k] = 0xAA
			}
			c.Probe("buffer_reused")
			c.Fault("caller_reuses_buffer")
			c.Log("reuse")
		case "scribble":
			if len(held) > 0 {
				held = held[:len(held)-1] // the caller itself changes the most recent result
			}
			for k := range lastBytes {
				lastBytes[k] = 0x55
			}
			for k := range lastPkts {
				lastPkts[k] = nil
			}
			if len(lastBytes) > 0 || len(lastPkts) > 0 {
				c.Probe("scribbled")
				c.Fault("caller_scribbles_result")
			}
			c.Log("scribble")
		case "append":
			// (lastPkts is nil before the first comparison: appending to nil is the caller's own affair)
			appendedTo = append(appendedTo, append(lastPkts, callersOwn))
			if len(appendedTo) > 4 {
				appendedTo = appendedTo[1:]
			}
			if len(lastPkts) == 0 && lastPkts != nil {
				c.Probe("caller_appended_to_an_empty_packet_list")
			}
			c.Fault("caller_appends_to_result")
			c.Log("append")
		default:
			pk, pay, hasPay := c17Packet(op)
			callerBuf = pk
			// model transition
			type exp struct {
				kind string // refused_start | refused_done | nopayload | accepted
			}
			var e exp
			restart := false
			switch {
			case state == done:
				e.kind = "refused_done"
				c.Probe("write_after_done")
			case state == idle && !op.PUSI:
				e.kind = "refused_start"
				c.Probe("refused_before_start")
			default:
				if op.PUSI {
					if state == accumulating && len(mpkAll) > 0 {
						c.Probe("second_pusi_restart")
					}
					restart = true
				}
				if hasPay {
					e.kind = "accepted"
				} else {
					e.kind = "nopayload"
					c.Probe("nopayload_packet")
					if op.PUSI {
						c.Probe("pusi_without_payload")
					}
					if op.Class == "afbad" {
						c.Probe("af_overrun_packet")
					}
					if op.Class == "afc0" {
						c.Probe("reserved_afc_packet")
					}
				}
				if hasPay && op.Class == "payff" {
					c.Probe("payload_all_ff")
				}
			}
			var wantDone bool
			var wantPredErr error
			if e.kind == "accepted" || e.kind == "nopayload" {
				if restart {
					mbuf, mpk, mpkAll = nil, nil, nil
				}
				state = accumulating
				mpkAll = append(mpkAll, pk)
				if e.kind == "accepted" {
					mpk = append(mpk, pk)
					mbuf = append(mbuf, pay...)
					if len(pay) == 0 {
						c.Probe("empty_payload_packet")
					}
					wantDone, wantPredErr = pred.eval(mbuf)
					if wantPredErr != nil {
						if wantDone {
							c.Probe("pred_err_with_done_true")
						}
						wantDone = false
						c.Probe("pred_err")
						if wantPredErr == gots.ErrAccumulatorDone {
							c.Probe("pred_err_is_done_sentinel")
						}
						c.Fault("predicate_error")
					}
					if wantDone {
						state = done
						if len(mpkAll) == 1 {
							c.Probe("done_at_first_packet")
						}
					}
				}
			}
			pendingForPred = mbuf
			run := func(a packet.Accumulator, p *c17Pred, who string) bool {
				var err error
				before := callerBuf
				nerr0 := p.nerr
				if !c.Call("Accumulator.WritePacket", func() { _, err = a.WritePacket(&callerBuf) }) {
					return false
				}
				if callerBuf != before {
					c.Fail("input_untouched", who+"write_modified_packet", "changed", "unchanged")
					return false
				}
				if p.bad != "" {
					c.Fail("predicate_input", who+"predicate_shown_wrong_bytes", p.bad, "the accumulated payload")
					return false
				}
				switch e.kind {
				case "refused_done":
					if err != gots.ErrAccumulatorDone {
						c.Fail("refuse_when_done", who+"write_after_done_not_refused", err, "ErrAccumulatorDone")
						return false
					}
				case "refused_start":
					if err == nil || err == gots.ErrAccumulatorDone {
						c.Fail("refuse_before_start", who+"write_before_unit_start_not_refused", err, "an error")
						return false
					}
				case "nopayload":
					if err == nil || err == gots.ErrAccumulatorDone {
						c.Fail("nopayload_error", who+"payloadless_packet_not_reported", err, "an error")
						return false
					}
				case "accepted":
					switch {
					case wantPredErr != nil:
						if p.nerr == nerr0 || err != p.lastE {
							c.Fail("predicate_error", who+"predicate_error_not_propagated", err, wantPredErr)
							return false
						}
					case wantDone:
						if err != gots.ErrAccumulatorDone {
							c.Fail("completion", who+"completion_not_reported", err, "ErrAccumulatorDone")
							return false
						}
					default:
						if err != nil {
							cl, sg := "completion", "completion_reported_early"
							if err != gots.ErrAccumulatorDone {
								cl, sg = "no_error", "spurious_error"
							}
							c.Fail(cl, who+sg, err, nil)
							return false
						}
					}
				}
				return true
			}
			if !run(acc, pred, "") {
				return
			}
			if shadow != nil && !run(shadow, spred, "after_reset:") {
				return
			}
			if op.TSC != 0 && (op.Class == "afpay" || op.Class == "afonly") {
				c.Probe("scrambled_packet_with_adaptation_field")
			}
			if op.PID&0x1FFF == 0x1FFF {
				c.Probe("packet_on_the_null_pid")
			}
			if i > 0 && s.Ops[i-1] == op && e.kind == "accepted" {
				c.Probe("same_packet_written_twice")
			}
			c.Log("write class=%s pusi=%t -> %s state=%d len=%d", op.Class, op.PUSI, e.kind, state, len(mbuf))
		}
		if long && i%997 != 0 && i < len(s.Ops)-8 {
			continue // a full comparison after every one of thousands of writes would be quadratic
		}
		if !checkHeld() {
			return
		}
		if i%4 == 0 || i == len(s.Ops)-1 {
			if !checkBystander() {
				return
			}
		}
		if !check(acc, "") {
			return
		}
		if shadow != nil {
			// the shadow (a fresh accumulator created at the last Reset) must agree too
			var b []byte
			var ps []*packet.Packet
			if !c.Call("Accumulator.Bytes", func() { b = shadow.Bytes(); ps = shadow.Packets() }) {
				return
			}
			if !bytes.Equal(b, mbuf) || (len(ps) != len(mpk) && len(ps) != len(mpkAll)) {
				c.Fail("reset_like_new", "fresh_accumulator_disagrees_with_model", len(b), len(mbuf))
				return
			}
		}
	}
	if len(s.Ops)%4 == 1 && !c.Failed() {
		c17SelfReset(c, len(s.Ops)%3+1)
	}
}

// c17SelfReset: a predicate that gives a unit up by resetting its own accumulator (at its
// at-th evaluation) and answering "not done". A reset is a reset wherever it is called from:
// afterwards the accumulator holds nothing, refuses a continuation packet and starts over
// with the next unit start.
func c17SelfReset(c *core.Ctx, at int) {
	var acc packet.Accumulator
	evals := 0
	acc = packet.NewAccumulator(func(b []byte) (bool, error) {
		evals++
		if evals == at {
			acc.Reset()
			return false, nil
		}
		return len(b) >= 5000, nil
	})
	mk := func(ser int, pusi bool) *packet.Packet {
		pk, _, _ := c17Packet(C17Op{Op: "write", Class: "pay", PUSI: pusi, Ser: 7000 + ser})
		return &pk
	}
	okc := c.Call("Accumulator.WritePacket (predicate resets its accumulator)", func() {
		acc.WritePacket(mk(0, true))
		for k := 1; k < at; k++ {
			acc.WritePacket(mk(k, false))
		}
	})
	if !okc {
		return
	}
	c.Probe("predicate_reset_its_own_accumulator")
	var b []byte
	var ps []*packet.Packet
	var werr error
	if !c.Call("Accumulator.Bytes/Packets/WritePacket (after the predicate's reset)", func() {
		b, ps = acc.Bytes(), acc.Packets()
		_, werr = acc.WritePacket(mk(50, false))
	}) {
		return
	}
	if len(b) != 0 || len(ps) != 0 {
		c.Fail("reset_like_new", "self_reset:accumulator_not_empty_after_reset_from_the_predicate", fmt.Sprint(len(b), " bytes ", len(ps), " packets"), "nothing")
		return
	}
	if werr == nil {
		c.Fail("reset_like_new", "self_reset:continuation_packet_accepted_after_reset_from_the_predicate", nil, "an error (no unit start yet)")
		return
	}
	start := mk(60, true)
	pay, _ := packet.Payload(start)
	if !c.Call("Accumulator.WritePacket (unit start after the predicate's reset)", func() {
		_, werr = acc.WritePacket(start)
		b = acc.Bytes()
	}) {
		return
	}
	if werr != nil || !bytes.Equal(b, pay) {
		c.Fail("reset_like_new", "self_reset:unit_start_after_reset_from_the_predicate", fmt.Sprint(len(b), werr), fmt.Sprint(len(pay), nil))
	}
}

func (c17) Shrink(script interface{}) []interface{} {
	s := script.(*C17Script)
	var out []interface{}
	cp := func() *C17Script {
		n := *s
		n.Ops = append([]C17Op(nil), s.Ops...)
		return &n
	}
	for _, keep := range core.DropChunks(len(s.Ops)) {
		n := cp()
		n.Ops = nil
		for _, i := range keep {
			n.Ops = append(n.Ops, s.Ops[i])
		}
		out = append(out, n)
	}
	if s.Pred.Kind != "threshold" {
		n := cp()
		n.Pred = PredSpec{Kind: "threshold", N: 300}
		out = append(out, n)
		n = cp()
		n.Pred = PredSpec{Kind: "never"}
		out = append(out, n)
	}
	for i, op := range s.Ops {
		if len(s.Ops) > 200 {
			break // per-operation simplification only once the history is short
		}
		if op.Op == "write" && op.Class != "pay" {
			n := cp()
			n.Ops[i].Class = "pay"
			n.Ops[i].AFLen = 0
			out = append(out, n)
		}
		if op.Op == "write" && op.PUSI {
			n := cp()
			n.Ops[i].PUSI = false
			out = append(out, n)
		}
		if op.Ser != i && op.Op == "write" {
			n := cp()
			n.Ops[i].Ser = i
			out = append(out, n)
		}
	}
	return out
}
