package props

import (
	"container/heap"
	"fmt"
	"strconv"
	"strings"

	gots "github.com/Comcast/gots/v2"
	"github.com/Comcast/gots/v2/packet"
	"github.com/Comcast/gots/v2/scte35"

	"verif/sim/core"
	"verif/sim/parties"
	"verif/sim/ref"
)

// C10 - SCTE-35 state tracker under a discrete-event simulation:
// encoder -> (packetiser -> accumulator -> decoder) -> lossy / duplicating /
// reordering signal channel -> tracker, with duration timers firing Close on
// a simulated 90 kHz clock (as scte35/doc.go instructs the user to do).

type C10Desc struct {
	Type   int    `json:"type"`
	Event  uint32 `json:"event"`
	SegNum int    `json:"seg_num,omitempty"`
	SegExp int    `json:"seg_exp,omitempty"`
	Sub    bool   `json:"sub,omitempty"`
	SubNum int    `json:"sub_num,omitempty"`
	SubExp int    `json:"sub_exp,omitempty"`
	Dur    int64  `json:"dur,omitempty"`    // 90 kHz ticks; 0 = no duration, no timer
	VSS    string `json:"vss,omitempty"`    // stream-switch signal id (two-UPID MID)
	Jitter int64  `json:"jitter,omitempty"` // timer fires at pts+dur+jitter (negative: early)
	Twice  bool   `json:"twice,omitempty"`  // the timer fires twice
	// Cancel: segmentation_event_cancel_indicator is set (through the transport path such a
	// descriptor arrives with nothing but its event id); it is a descriptor like any other
	// for the tracker: what it closes must be closable by it under the rules
	Cancel bool `json:"cancel,omitempty"`
}

type C10Signal struct {
	T     int64 `json:"t"`                // simulated time of the splice point (ticks from run start)
	NoPTS bool  `json:"no_pts,omitempty"` // splice_null: the signal carries no time
	// Shift: the command's pts_time lies Shift ticks before the signal time and pts_adjustment
	// makes up for it (a re-stamped signal); the signal time is the same
	Shift int64     `json:"shift,omitempty"`
	Descs []C10Desc `json:"descs"`
}

// C10Step is one arrival at the receiver, after the channel has done its work.
type C10Step struct {
	At    int64  `json:"at"`
	Kind  string `json:"kind"` // signal | close | close_unknown
	Sig   int    `json:"sig"`
	Desc  int    `json:"desc,omitempty"`
	Twice bool   `json:"same_object_twice,omitempty"`
	Fault string `json:"fault,omitempty"` // dup | late_dup | reorder (how the channel produced this arrival)
	// Near (kind close_near): the caller closes a near-copy of a delivered descriptor, one field
	// changed: "pts:K" (signal time + 2^K), "event:K" (event id bit K flipped), "seg", "type"
	Near string `json:"near,omitempty"`
}

// C10Block: Count deliveries of fresh descriptors of one type (event id and PTS increasing)
// during which the caller does NOT look at Open(); Open() is polled after the block.
type C10Block struct {
	Type  int `json:"type"`
	Count int `json:"count"`
}

type C10Script struct {
	// Blocks (workload "unpolled"): long stretches without a call to Open()
	Blocks    []C10Block  `json:"blocks,omitempty"`
	Base      int64       `json:"base"` // PTS of simulated time 0 (mod 2^33)
	Transport bool        `json:"transport"`
	Sizes     []int       `json:"sizes,omitempty"`
	Signals   []C10Signal `json:"signals"`
	Steps     []C10Step   `json:"steps"`
	Dropped   int         `json:"dropped,omitempty"`
	Workload  string      `json:"workload"`
}

type c10 struct{}

func init() { core.Register(c10{}) }

func (c10) ID() string       { return "C10" }
func (c10) New() interface{} { return &C10Script{} }
func (c10) Info() core.Info {
	return core.Info{
		Runs: map[string]int{"quick": 200000, "thorough": 15000000},
		Rule: "Each run is a discrete-event simulation on a 90 kHz clock: an encoder emits splice_info_sections (time_signal / splice_null, 1-3 segmentation descriptors, built with the real creation API) from either a generated 'broadcast day' (nested program/chapter/break/ad/placement-opportunity segments, breakaway/resumption, early termination, overlap, unscheduled events with stream-switch ids, network signals, optionally crossing the 2^33 PTS wrap) or an adversarial alphabet (14 types x 3 event ids x 4 times); a scripted channel drops, duplicates (immediately, with the same object, or beyond the 10-entry duplicate ring) and reorders deliveries; in half of the runs each section travels as scripted transport packets through the real accumulator and decoder; every accepted descriptor with a duration arms a timer that calls Close at pts+duration+jitter (early, late, twice, after it was closed); explicit and unknown Closes are interleaved. An invariant monitor using only public results is evaluated after every call. A 'deep' workload holds 5..257 descriptors open under a breakaway; explicit closes also use near-copies of delivered descriptors (signal time + 2^k, event-id bit, segment number, type); stream-switch pairs also carry first UPIDs other than 'BLACKOUT:<id>'; the allocation of every ProcessDescriptor call is measured (a call that allocates >64 MiB is on its way to taking the process down). Plus a complete sweep of all call histories of length <=4 over a 9-letter alphabet. Non-trivial = at least one reach probe fired. Added in wave 20: near-copies with the same pts_time under another pts_adjustment (adj:K) or the same signal time split differently (split:K); runs in which only some signals are re-stamped.",
		Real: []string{"scte35.NewState", "state.ProcessDescriptor/Close/Open", "segmentationDescriptor getters (the closing rules and equality themselves are the harness's transcription, ref/closing.go)", "scte35 creation API + UpdateData", "scte35.NewSCTE35", "scte35.SCTE35AccumulatorDoneFunc", "packet.Accumulator"},
		Stub: []string{"encoder workload", "packetiser", "signal channel (drop/dup/late dup/reorder)", "simulated clock + event heap + duration timers", "caller issuing explicit closes"},
		Assumptions: []string{
			"CanClose/Equal are taken as the closing rules (their table is C19's subject)",
			"'open' in the statement = Open() plus the pending program breakaway, which the tracker keeps but hides from Open()",
			"completeness of Open() is not demanded; only what the statement says (never-processed, already-closed/discarded, repeated, out of order)",
			"a second identical call must fail; it must fail as duplicate only if the first call returned no error",
			"closed lists and Open() results returned earlier must not change under later calls (they are the caller's)",
		},
		SimTimeUnit:    "sim_ticks_90khz",
		RequiredProbes: []string{"breakaway_then_closer", "breakaway_then_explicit_close_below", "resumption_with_breakaway", "resumption_without_breakaway", "second_breakaway", "dup_within_ring", "dup_beyond_ring", "timer_close_hit", "timer_close_miss", "multi_descriptor_signal", "pts_wrap", "no_pts", "vss_pair", "open_depth_ge4", "transport_path", "same_object_twice", "held_lists_checked", "caller_wipes_open_list", "unpolled_stretch", "unpolled_ge_256_calls", "open_depth_ge64", "restamped_signal_through_transport", "pts_time_plus_adjustment_wraps", "descriptor_with_cancel_indicator", "no_pts_but_pts_adjustment", "close_with_same_pts_time_under_another_adjustment"},
	}
}

const ptsMod = int64(1) << 33

// ---------------------------------------------------------------------------
// generators

var c10Types = []int{0x10, 0x11, 0x12, 0x13, 0x14, 0x17, 0x19, 0x20, 0x21, 0x22, 0x23, 0x30, 0x31, 0x32, 0x33, 0x34, 0x35, 0x36, 0x37, 0x40, 0x41, 0x44, 0x45, 0x50, 0x51, 0x15, 0x3C, 0x3D, 0x01, 0x00}

func c10GenAdversarial(r *core.Rand) *C10Script {
	s := &C10Script{Workload: "adversarial"}
	types := c10Types
	if r.Bool() { // a narrow alphabet finds the breakaway bookkeeping faster
		types = []int{0x10, 0x11, 0x13, 0x14, 0x40, 0x41, 0x50, 0x51, 0x20, 0x30, 0x34, 0x35, 0x22, 0x12}
	}
	times := []int64{0, 90000, 180000, 270000}
	n := r.Pick(2, 3, 4, 5, 6, 8, 11, 16, 30)
	var at int64
	for i := 0; i < n; i++ {
		at += int64(r.Range(1, 3000))
		sig := C10Signal{T: times[r.Intn(4)]}
		if r.Chance(1, 20) {
			sig.NoPTS = true
		}
		for k := r.Pick(1, 1, 1, 2); k > 0; k-- {
			d := C10Desc{Type: types[r.Intn(len(types))], Event: uint32(r.Range(1, 3))}
			if d.Type >= 0x34 && d.Type <= 0x37 {
				d.SegExp = r.Pick(0, 1, 2)
				d.SegNum = r.Range(0, d.SegExp)
				if r.Chance(1, 4) {
					d.SegNum = r.Pick(0, 1, 2, 255) // also segment numbers beyond / without an expected count
				}
				if (d.Type == 0x34 || d.Type == 0x36) && r.Chance(1, 3) {
					d.Sub, d.SubExp = true, r.Pick(1, 2)
					d.SubNum = r.Range(1, d.SubExp)
				}
			}
			if d.Type == 0x40 && r.Bool() {
				d.VSS = r.PickS("sigA", "sigB", "sigA", "sigB", c10RawVSS[r.Intn(len(c10RawVSS))])
			}
			if r.Chance(1, 20) {
				d.Cancel = true
			}
			if r.Chance(1, 5) {
				d.Dur = int64(r.Pick(1, 90000, 900000))
				d.Jitter = int64(r.Pick(0, -5, 5, 100000, -100000))
				d.Twice = r.Chance(1, 4)
			}
			sig.Descs = append(sig.Descs, d)
		}
		s.Signals = append(s.Signals, sig)
		st := C10Step{At: at, Kind: "signal", Sig: len(s.Signals) - 1, Twice: r.Chance(1, 8)}
		s.Steps = append(s.Steps, st)
		if r.Chance(1, 6) && len(s.Signals) > 0 {
			at++
			k := r.Intn(len(s.Signals))
			cs := C10Step{At: at, Kind: r.PickS("close", "close", "close", "close_unknown", "close_near"), Sig: k, Desc: r.Intn(len(s.Signals[k].Descs))}
			if cs.Kind == "close_near" {
				cs.Near = c10Near(r)
			}
			s.Steps = append(s.Steps, cs)
		}
	}
	return s
}

// first UPIDs of a stream-switch pair that are not the usual "BLACKOUT:<id>"
var c10RawVSS = []string{"raw:BLACKOUT", "raw:BLACKOUT:", "raw:id BLACKOUT", "raw:BLACKOUT:BLACKOUT", "raw:BLACKOUT:BLACKOUT:x", "raw:xBLACKOUT:y", "raw:blackout:z", "raw:", "raw:BLACKOU", "raw:B"}

func c10Near(r *core.Rand) string {
	if r.Chance(1, 4) {
		// the same pts_time under another pts_adjustment (another signal time), or the same
		// signal time split differently between pts_time and pts_adjustment (the same signal)
		return fmt.Sprintf("%s:%d", r.PickS("adj", "adj", "split"), r.Pick(0, 1, 7, 16, 24, 31, 32))
	}
	switch r.Intn(6) {
	case 0, 1:
		return fmt.Sprintf("pts:%d", r.Pick(0, 1, 7, 8, 15, 16, 24, 31, 32, 32, 32))
	case 2, 3:
		return fmt.Sprintf("event:%d", r.Pick(0, 7, 8, 15, 16, 24, 31))
	case 4:
		return r.PickS("seg", "sub")
	}
	return "type"
}

// c10GenDeep: many descriptors open at once (types that do not close one another, fresh event
// ids), then a breakaway on top, a few more, and the resumption; closes and near-copies after.
func c10GenDeep(r *core.Rand) *C10Script {
	s := &C10Script{Workload: "deep"}
	types := []int{0x30, 0x40, 0x20, 0x22, 0x34, 0x36, 0x44, 0x32}
	if r.Bool() {
		types = []int{0x30, 0x40}
	}
	depth := r.Pick(5, 31, 32, 33, 62, 63, 64, 65, 66, 127, 128, 129, 200, 255, 256, 257)
	var at, t int64
	add := func(d C10Desc) {
		at += int64(r.Range(1, 3000))
		t += 90000
		s.Signals = append(s.Signals, C10Signal{T: t, Descs: []C10Desc{d}})
		s.Steps = append(s.Steps, C10Step{At: at, Kind: "signal", Sig: len(s.Signals) - 1})
	}
	ev := uint32(1000)
	add(C10Desc{Type: 0x10, Event: 1})
	for i := 0; i < depth; i++ {
		ev++
		d := C10Desc{Type: types[i%len(types)], Event: ev}
		if d.Type == 0x34 || d.Type == 0x36 {
			d.SegNum, d.SegExp = 1, 2
		}
		add(d)
	}
	add(C10Desc{Type: 0x13, Event: 1})
	for i := r.Pick(0, 0, 1, 3); i > 0; i-- {
		ev++
		add(C10Desc{Type: types[r.Intn(len(types))], Event: ev})
	}
	if r.Chance(1, 4) {
		at++
		s.Steps = append(s.Steps, C10Step{At: at, Kind: "close", Sig: r.Intn(len(s.Signals)), Desc: 0})
	}
	add(C10Desc{Type: 0x14, Event: 1})
	for i := r.Pick(0, 1, 2, 4); i > 0; i-- {
		at++
		k := r.Intn(len(s.Signals))
		st := C10Step{At: at, Kind: r.PickS("close", "close_near", "close_unknown"), Sig: k}
		if st.Kind == "close_near" {
			st.Near = c10Near(r)
		}
		s.Steps = append(s.Steps, st)
	}
	if r.Bool() {
		add(C10Desc{Type: 0x11, Event: 1})
	}
	return s
}

type c10Seg struct {
	typ   int
	event uint32
	exp   int
	num   int
}

func c10GenDay(r *core.Rand, big bool) *C10Script {
	s := &C10Script{Workload: "broadcast_day"}
	var t int64
	var stack []c10Seg
	ev := uint32(100)
	newEv := func() uint32 { ev++; return ev }
	n := r.Pick(6, 10, 20, 40, 80, 150)
	if big {
		n = r.Pick(300, 600)
	}
	inBreakaway := false
	emit := func(ds ...C10Desc) {
		s.Signals = append(s.Signals, C10Signal{T: t, Descs: ds})
	}
	top := func(typ int) int {
		for i := len(stack) - 1; i >= 0; i-- {
			if stack[i].typ == typ {
				return i
			}
		}
		return -1
	}
	withDur := func(d C10Desc, planned int64) C10Desc {
		if r.Chance(1, 2) {
			d.Dur = planned
			d.Jitter = int64(r.Pick(0, 1, 90, 9000, -1, -9000, 90000))
			d.Twice = r.Chance(1, 10)
		}
		return d
	}
	for len(s.Signals) < n {
		t += int64(r.Pick(90000, 450000, 900000, 2700000, 5400000, 27000000, 162000000))
		prog := top(0x10)
		switch {
		case prog < 0 && top(0x19) < 0 && top(0x17) < 0:
			typ := r.Pick(0x10, 0x10, 0x10, 0x19, 0x50)
			e := newEv()
			stack = append(stack, c10Seg{typ: typ, event: e})
			emit(C10Desc{Type: typ, Event: e})
		default:
			switch r.Intn(16) {
			case 0, 1: // chapter
				if i := top(0x20); i >= 0 && r.Bool() {
					emit(C10Desc{Type: 0x21, Event: stack[i].event})
					stack = stack[:i]
				} else {
					e := newEv()
					stack = append(stack, c10Seg{typ: 0x20, event: e})
					emit(C10Desc{Type: 0x20, Event: e})
				}
			case 2, 3, 4: // break with ads / placement opportunities
				if i := top(0x22); i >= 0 {
					emit(C10Desc{Type: 0x23, Event: stack[i].event})
					stack = stack[:i]
				} else {
					e := newEv()
					stack = append(stack, c10Seg{typ: 0x22, event: e})
					emit(withDur(C10Desc{Type: 0x22, Event: e}, 10800000))
				}
			case 5, 6: // provider / distributor ad
				typ := r.Pick(0x30, 0x32)
				if i := top(typ); i >= 0 {
					d := C10Desc{Type: typ + 1, Event: stack[i].event}
					stack = stack[:i]
					if r.Bool() { // back-to-back: end and next start in one signal
						e := newEv()
						stack = append(stack, c10Seg{typ: typ, event: e})
						emit(d, withDur(C10Desc{Type: typ, Event: e}, 2700000))
					} else {
						emit(d)
					}
				} else {
					e := newEv()
					stack = append(stack, c10Seg{typ: typ, event: e})
					emit(withDur(C10Desc{Type: typ, Event: e}, 2700000))
				}
			case 7, 8: // placement opportunity with segment numbering
				typ := r.Pick(0x34, 0x36)
				if i := top(typ); i >= 0 {
					sg := stack[i]
					d := C10Desc{Type: typ + 1, Event: sg.event, SegNum: sg.num, SegExp: sg.exp}
					if sg.num < sg.exp && r.Chance(2, 3) { // next segment of the same opportunity
						stack[i].num++
						emit(d, C10Desc{Type: typ, Event: sg.event, SegNum: sg.num + 1, SegExp: sg.exp})
					} else {
						stack = stack[:i]
						emit(d)
					}
				} else {
					e := newEv()
					exp := r.Pick(1, 2, 3)
					stack = append(stack, c10Seg{typ: typ, event: e, exp: exp, num: 1})
					d := C10Desc{Type: typ, Event: e, SegNum: 1, SegExp: exp}
					if r.Chance(1, 3) {
						d.Sub, d.SubNum, d.SubExp = true, 1, r.Pick(1, 2)
					}
					emit(withDur(d, 5400000))
				}
			case 9: // breakaway / resumption
				if inBreakaway {
					emit(C10Desc{Type: 0x14, Event: stack[prog0(stack)].event})
					inBreakaway = false
				} else {
					emit(C10Desc{Type: 0x13, Event: stack[prog0(stack)].event})
					inBreakaway = true
				}
			case 10: // unscheduled event (stream switch)
				if i := top(0x40); i >= 0 {
					emit(C10Desc{Type: 0x41, Event: stack[i].event})
					stack = stack[:i]
				} else {
					e := newEv()
					stack = append(stack, c10Seg{typ: 0x40, event: e})
					emit(C10Desc{Type: 0x40, Event: e, VSS: fmt.Sprintf("sw%d", e%3)})
				}
			case 11: // program end (+ next start in the same signal)
				p := prog0(stack)
				e := stack[p].event
				stack = stack[:p]
				inBreakaway = false
				if r.Bool() {
					e2 := newEv()
					stack = append(stack, c10Seg{typ: 0x10, event: e2})
					emit(C10Desc{Type: 0x11, Event: e}, C10Desc{Type: 0x10, Event: e2})
				} else {
					emit(C10Desc{Type: r.Pick(0x11, 0x11, 0x12), Event: e})
				}
			case 12: // overlap start / runover
				e := newEv()
				typ := r.Pick(0x17, 0x15, 0x16, 0x18)
				if typ == 0x17 {
					stack = append(stack, c10Seg{typ: 0x10, event: e})
				}
				emit(C10Desc{Type: typ, Event: e})
			case 13: // network
				if i := top(0x50); i >= 0 {
					emit(C10Desc{Type: 0x51, Event: stack[i].event})
					stack = stack[:i]
				} else {
					e := newEv()
					stack = append(stack, c10Seg{typ: 0x50, event: e})
					emit(C10Desc{Type: 0x50, Event: e})
				}
			case 14: // ad block
				if i := top(0x44); i >= 0 {
					emit(C10Desc{Type: 0x45, Event: stack[i].event})
					stack = stack[:i]
				} else {
					e := newEv()
					stack = append(stack, c10Seg{typ: 0x44, event: e})
					emit(C10Desc{Type: 0x44, Event: e})
				}
			default: // junk: an end nobody asked for, or a time-less signal
				if r.Bool() {
					emit(C10Desc{Type: c10Types[r.Intn(len(c10Types))], Event: uint32(r.Range(100, int(ev)))})
				} else {
					s.Signals = append(s.Signals, C10Signal{T: t, NoPTS: true, Descs: []C10Desc{{Type: 0x30, Event: newEv()}}})
				}
			}
		}
	}
	// the channel
	var arrivals []C10Step
	for i, sg := range s.Signals {
		if r.Chance(1, 25) {
			s.Dropped++
			continue
		}
		at := sg.T - int64(r.Range(0, 360000)) // signals arrive up to 4 s ahead of their splice time
		if at < 0 {
			at = 0
		}
		st := C10Step{At: at, Kind: "signal", Sig: i, Twice: r.Chance(1, 30)}
		if r.Chance(1, 20) && len(arrivals) > 0 { // reorder with the previous arrival
			st.Fault = "reorder"
			st.At = arrivals[len(arrivals)-1].At - 1
		}
		arrivals = append(arrivals, st)
		if r.Chance(1, 20) {
			arrivals = append(arrivals, C10Step{At: at + 1, Kind: "signal", Sig: i, Fault: "dup"})
		}
		if r.Chance(1, 25) {
			arrivals = append(arrivals, C10Step{At: at + int64(r.Pick(5400000, 54000000, 324000000)), Kind: "signal", Sig: i, Fault: "late_dup"})
		}
		if r.Chance(1, 25) {
			cs := C10Step{At: at + int64(r.Pick(2, 90000, 5400000)), Kind: r.PickS("close", "close", "close_unknown", "close_near"), Sig: r.Intn(i + 1), Desc: 0}
			if cs.Kind == "close_near" {
				cs.Near = c10Near(r)
			}
			arrivals = append(arrivals, cs)
		}
	}
	s.Steps = arrivals
	return s
}

func scanNear(s, prefix string, k *int) bool {
	if !strings.HasPrefix(s, prefix) {
		return false
	}
	n, err := strconv.Atoi(s[len(prefix):])
	*k = n
	return err == nil && n >= 0
}

func prog0(stack []c10Seg) int {
	for i := len(stack) - 1; i >= 0; i-- {
		if stack[i].typ == 0x10 || stack[i].typ == 0x19 || stack[i].typ == 0x17 {
			return i
		}
	}
	return 0
}

func c10GenUnpolled(r *core.Rand) *C10Script {
	s := &C10Script{Workload: "unpolled"}
	types := []int{0x10, 0x20, 0x30, 0x34, 0x22, 0x40, 0x50, 0x44}
	gaps := []int{1, 2, 127, 128, 129, 255, 256, 257, 511, 512, 513, 100, 300}
	for i := r.Range(2, 6); i > 0; i-- {
		s.Blocks = append(s.Blocks, C10Block{Type: types[r.Intn(len(types))], Count: gaps[r.Intn(len(gaps))]})
	}
	if r.Chance(1, 40) {
		s.Blocks = append(s.Blocks, C10Block{Type: 0x10, Count: r.Pick(32767, 32768, 32769, 65536)})
		s.Blocks = append(s.Blocks, C10Block{Type: 0x10, Count: 3})
	}
	return s
}

func (c10) Gen(r *core.Rand, tier string) interface{} {
	if r.Chance(1, 60) {
		return c10GenUnpolled(r)
	}
	var s *C10Script
	if r.Chance(1, 25) {
		s = c10GenDeep(r)
	} else if r.Chance(2, 5) {
		s = c10GenDay(r, tier == "thorough" && r.Chance(1, 10))
	} else {
		s = c10GenAdversarial(r)
	}
	switch r.Intn(4) {
	case 0:
		s.Base = ptsMod - int64(r.Pick(1, 90000, 27000000, 162000000, 324000000))
	case 1:
		s.Base = 0
	default:
		s.Base = int64(r.U64() % uint64(ptsMod))
	}
	if r.Chance(1, 4) {
		sh := int64(r.Pick(1, 90000, 27000000, 1<<32, 1<<33-1))
		mixed := r.Chance(1, 3) // only some signals are re-stamped: equal signal times reached through different pts_time / pts_adjustment splits
		for i := range s.Signals {
			if !mixed || r.Bool() {
				s.Signals[i].Shift = sh // (a signal without a time gets the pts_adjustment alone)
			}
		}
	}
	if r.Bool() {
		s.Transport = true
		for i := r.Range(0, 6); i > 0; i-- {
			s.Sizes = append(s.Sizes, r.Pick(1, 2, 3, 4, 14, 20, 100, 183, 184))
		}
	}
	return s
}

// sweep alphabet: 7 deliveries and 2 explicit closes, all on fixed values
var c10Alpha = []struct {
	close bool
	d     C10Desc
	t     int64
}{
	{false, C10Desc{Type: 0x10, Event: 1}, 0},
	{false, C10Desc{Type: 0x13, Event: 1}, 90000},
	{false, C10Desc{Type: 0x14, Event: 1}, 180000},
	{false, C10Desc{Type: 0x11, Event: 1}, 270000},
	{false, C10Desc{Type: 0x40, Event: 2, VSS: "sw"}, 90000},
	{false, C10Desc{Type: 0x41, Event: 2}, 180000},
	{false, C10Desc{Type: 0x20, Event: 3}, 90000},
	{true, C10Desc{Type: 0x10, Event: 1}, 0},
	{true, C10Desc{Type: 0x13, Event: 1}, 90000},
}

var c10SweepN = 9 + 81 + 729 + 6561

func (c10) SweepSize(string) int { return c10SweepN }

func (c10) SweepCase(tier string, i int) interface{} {
	l, p := 1, 9
	for i >= p {
		i -= p
		l++
		p *= 9
	}
	s := &C10Script{Workload: "sweep", Base: 1000}
	for k := 0; k < l; k++ {
		a := c10Alpha[i%9]
		i /= 9
		s.Signals = append(s.Signals, C10Signal{T: a.t, Descs: []C10Desc{a.d}})
		kind := "signal"
		if a.close {
			kind = "close"
		}
		s.Steps = append(s.Steps, C10Step{At: int64(k), Kind: kind, Sig: k})
	}
	return s
}

func (c10) Size(script interface{}) int {
	s := script.(*C10Script)
	n := len(s.Steps)*2 + len(s.Sizes)
	for _, b := range s.Blocks {
		n += 1 + b.Count/16
	}
	for _, sg := range s.Signals {
		n += len(sg.Descs)
	}
	return n
}

// ---------------------------------------------------------------------------
// executor

func c10Build(sg C10Signal, base int64) (scte35.SCTE35, []scte35.SegmentationDescriptor) {
	sc := scte35.CreateSCTE35()
	if sg.NoPTS && sg.Shift != 0 {
		// a splice_null re-stamped by a device upstream: a pts_adjustment, but still no time
		sc.SetAdjustPTS(gots.PTS(uint64(sg.Shift) % uint64(ptsMod)))
	}
	if !sg.NoPTS {
		cmd := scte35.CreateTimeSignalCommand()
		cmd.SetHasPTS(true)
		sc.SetCommandInfo(cmd)
		sc.SetPTS(gots.PTS(uint64(base+sg.T) % uint64(ptsMod)))
		if sg.Shift != 0 {
			cmd.SetPTS(gots.PTS(uint64(base+sg.T-sg.Shift%ptsMod+ptsMod) % uint64(ptsMod)))
			sc.SetAdjustPTS(gots.PTS(uint64(base+sg.T) % uint64(ptsMod)))
		}
	}
	var ds []scte35.SegmentationDescriptor
	for _, d := range sg.Descs {
		x := scte35.CreateSegmentationDescriptor()
		x.SetEventID(d.Event)
		x.SetHasProgramSegmentation(true)
		x.SetIsDeliveryNotRestricted(d.VSS == "")
		if d.VSS != "" {
			x.SetIsWebDeliveryAllowed(true)
			x.SetIsArchiveAllowed(true)
			x.SetUPIDType(scte35.SegUPIDMID)
			u1 := scte35.CreateUPID()
			u1.SetUPIDType(scte35.SegUPIDADI)
			if strings.HasPrefix(d.VSS, "raw:") {
				// the first UPID taken literally: the marker alone, twice, not at the front, absent
				u1.SetUPID([]byte(d.VSS[4:]))
			} else {
				u1.SetUPID([]byte("BLACKOUT:" + d.VSS))
			}
			u2 := scte35.CreateUPID()
			u2.SetUPIDType(scte35.SegUPADSINFO)
			u2.SetUPID([]byte("comcast:linear:licenserotation"))
			x.SetMID([]scte35.UPID{u1, u2})
		}
		if d.Cancel {
			x.SetIsEventCanceled(true)
		}
		x.SetTypeID(scte35.SegDescType(d.Type))
		x.SetSegmentNumber(uint8(d.SegNum))
		x.SetSegmentsExpected(uint8(d.SegExp))
		if d.Sub && (d.Type == 0x34 || d.Type == 0x36) {
			x.SetHasSubSegments(true)
			x.SetSubSegmentNumber(uint8(d.SubNum))
			x.SetSubSegmentsExpected(uint8(d.SubExp))
		}
		if d.Dur > 0 {
			x.SetHasDuration(true)
			x.SetDuration(gots.PTS(d.Dur))
		}
		ds = append(ds, x)
	}
	sc.SetDescriptors(ds)
	return sc, ds
}

// c10Facts reads what the closing relation and equality look at through the public getters.
func c10Facts(d scte35.SegmentationDescriptor) ref.SegFacts {
	f := ref.SegFacts{Type: int(d.TypeID()), Event: d.EventID(), SegNum: int(d.SegmentNumber()), SegExp: int(d.SegmentsExpected()),
		HasSub: d.HasSubSegments(), SubNum: int(d.SubSegmentNumber()), SubExp: int(d.SubSegmentsExpected())}
	if sc := d.SCTE35(); sc != nil {
		f.HasPTS, f.PTS = sc.HasPTS(), uint64(sc.PTS())
	}
	return f
}

type c10Event struct {
	at   int64
	seq  int
	run  func()
	name string
}
type c10Heap []*c10Event

func (h c10Heap) Len() int { return len(h) }
func (h c10Heap) Less(i, j int) bool {
	if h[i].at != h[j].at {
		return h[i].at < h[j].at
	}
	return h[i].seq < h[j].seq
}
func (h c10Heap) Swap(i, j int)       { h[i], h[j] = h[j], h[i] }
func (h *c10Heap) Push(x interface{}) { *h = append(*h, x.(*c10Event)) }
func (h *c10Heap) Pop() interface{} {
	o := *h
	x := o[len(o)-1]
	*h = o[:len(o)-1]
	return x
}

type c10Info struct {
	seq  int // order of the first ProcessDescriptor call with this object
	gone bool
	typ  int
}

func sdName(d scte35.SegmentationDescriptor) string {
	return fmt.Sprintf("%#x/e%d/pts%d", int(d.TypeID()), d.EventID(), d.SCTE35().PTS())
}

// c10Unpolled: the caller processes long runs of signals without calling Open() in between
// (nothing obliges it to poll). Closed lists are checked on every call, Open() only at the
// end of each block: it must not show anything that was reported closed meanwhile.
func c10Unpolled(s *C10Script, c *core.Ctx) {
	st := scte35.NewState()
	type inf struct {
		seq  int
		gone bool
	}
	info := map[scte35.SegmentationDescriptor]*inf{}
	n := 0
	c.Probe("unpolled_stretch")
	c.Log("c10 unpolled blocks=%d", len(s.Blocks))
	for bi, b := range s.Blocks {
		c.SetStep(bi)
		cnt := b.Count
		if cnt > 70000 {
			cnt = 70000
		}
		if cnt >= 256 {
			c.Probe("unpolled_ge_256_calls")
		}
		for k := 0; k < cnt; k++ {
			n++
			_, ds := c10Build(C10Signal{T: int64(n) * 90000, Descs: []C10Desc{{Type: b.Type, Event: uint32(n), SegNum: 1, SegExp: 1}}}, s.Base)
			d := ds[0]
			info[d] = &inf{seq: n}
			var closed []scte35.SegmentationDescriptor
			var err error
			if !c.Call("State.ProcessDescriptor", func() { closed, err = st.ProcessDescriptor(d) }) {
				return
			}
			_ = err
			for _, x := range closed {
				in := info[x]
				if in == nil {
					c.Fail("closed_was_open", "closed_never_processed", "unknown descriptor", "an open descriptor")
					return
				}
				if in.gone {
					c.Fail("closed_once", "closed_returned_twice", sdName(x), "at most once")
					return
				}
				in.gone = true
			}
		}
		c.Unit("tracker_calls", int64(cnt))
		var o []scte35.SegmentationDescriptor
		if !c.Call("State.Open", func() { o = st.Open() }) {
			return
		}
		c.Log("block %d type=%#x count=%d open=%d", bi, b.Type, cnt, len(o))
		seen := map[scte35.SegmentationDescriptor]bool{}
		last := 0
		for _, x := range o {
			in := info[x]
			switch {
			case x == nil || in == nil:
				c.Fail("open_only_processed", "open_contains_never_processed", "unknown", "subset of processed")
				return
			case in.gone:
				c.Fail("open_not_closed", "open_contains_closed_or_discarded", sdName(x), "not in Open() (it was reported closed while the caller was not polling)")
				return
			case seen[x]:
				c.Fail("open_no_repeat", "open_contains_descriptor_twice", sdName(x), "once")
				return
			case in.seq < last:
				c.Fail("open_order", "open_not_in_opening_order", sdName(x), "ascending opening order")
				return
			}
			seen[x] = true
			last = in.seq
		}
	}
}

func (c10) Exec(script interface{}, c *core.Ctx) {
	s := script.(*C10Script)
	if s.Workload == "unpolled" {
		c10Unpolled(s, c)
		return
	}
	st := scte35.NewState()
	// a second tracker alive in the same process (one per channel is the normal use):
	// nothing done to the tracker under test may show there
	other := scte35.NewState()
	_, bds := c10Build(C10Signal{T: 4500000, Descs: []C10Desc{{Type: 0x10, Event: 900001}, {Type: 0x30, Event: 900002}}}, 12345)
	for _, bd := range bds {
		bd := bd
		if !c.Call("State.ProcessDescriptor(bystander)", func() { other.ProcessDescriptor(bd) }) {
			return
		}
	}
	defer func() {
		if c.Failed() {
			return
		}
		var o []scte35.SegmentationDescriptor
		if !c.Call("State.Open(bystander)", func() { o = other.Open() }) {
			return
		}
		if len(o) != 2 || o[0] != bds[0] || o[1] != bds[1] {
			c.Fail("trackers_independent", "another_tracker_changed", len(o), "its own two descriptors")
		}
	}()
	info := map[scte35.SegmentationDescriptor]*c10Info{}
	// pending breakaways, in acceptance order: kept by the tracker but (the most
	// recent one at least) hidden from Open(). "open" in the statement = Open() + these.
	var pending []scte35.SegmentationDescriptor
	isPending := func(d scte35.SegmentationDescriptor) bool {
		for _, x := range pending {
			if x == d {
				return true
			}
		}
		return false
	}
	unpend := func(d scte35.SegmentationDescriptor) {
		for i, x := range pending {
			if x == d {
				pending = append(pending[:i:i], pending[i+1:]...)
				return
			}
		}
	}
	nproc := 0
	var h c10Heap
	seq := 0
	push := func(at int64, name string, f func()) {
		seq++
		heap.Push(&h, &c10Event{at: at, seq: seq, run: f, name: name})
	}
	var now int64
	c.Log("c10 workload=%s base=%d transport=%t signals=%d steps=%d", s.Workload, s.Base, s.Transport, len(s.Signals), len(s.Steps))
	if s.Dropped > 0 {
		for i := 0; i < s.Dropped; i++ {
			c.Fault("chan_drop")
		}
	}
	if s.Transport {
		c.Probe("transport_path")
	}

	nOpenCalls := 0
	sameListFn := func(a, b []scte35.SegmentationDescriptor) bool {
		if len(a) != len(b) {
			return false
		}
		for i := range a {
			if a[i] != b[i] {
				return false
			}
		}
		return true
	}
	// lists handed out earlier (closed lists, Open() results) belong to the caller: later
	// calls must not change them
	type heldList struct {
		l, snap []scte35.SegmentationDescriptor
		what    string
	}
	var held []heldList
	hold := func(l []scte35.SegmentationDescriptor, what string) {
		if len(l) == 0 {
			return
		}
		held = append(held, heldList{l: l, snap: append([]scte35.SegmentationDescriptor(nil), l...), what: what})
		if len(held) > 6 {
			held = held[1:]
		}
	}
	checkHeld := func() bool {
		for _, h := range held {
			for i := range h.snap {
				if h.l[i] != h.snap[i] {
					c.Fail("returned_lists_independent", "earlier_"+h.what+"_list_changed", "element "+itoa(i)+" replaced", "unchanged")
					return false
				}
			}
		}
		if len(held) > 0 {
			c.Probe("held_lists_checked")
		}
		return true
	}
	getOpen := func() ([]scte35.SegmentationDescriptor, bool) {
		var o []scte35.SegmentationDescriptor
		ok := c.Call("State.Open", func() { o = st.Open() })
		if ok {
			if !checkHeld() {
				return o, false
			}
			hold(o, "open")
			// every third call the caller also takes a second list and wipes it: the returned
			// list is the caller's, the tracker must not be looking at the same memory
			nOpenCalls++
			if nOpenCalls%3 == 0 {
				var o2 []scte35.SegmentationDescriptor
				if !c.Call("State.Open(scribbled)", func() { o2 = st.Open() }) {
					return o, false
				}
				if !sameListFn(o, o2) {
					c.Fail("open_stable", "two_open_calls_in_a_row_differ", len(o2), len(o))
					return o, false
				}
				for i := range o2 {
					o2[i] = nil
				}
				c.Probe("caller_wipes_open_list")
			}
		}
		return o, ok
	}
	// invariants on Open()
	checkOpen := func(o []scte35.SegmentationDescriptor) bool {
		seen := map[scte35.SegmentationDescriptor]bool{}
		last := -1
		for _, d := range o {
			in := info[d]
			if d == nil || in == nil {
				c.Fail("open_only_processed", "open_contains_never_processed", "a descriptor never passed to ProcessDescriptor", "subset of processed")
				return false
			}
			if in.gone {
				c.Fail("open_not_closed", "open_contains_closed_or_discarded", sdName(d), "not in Open()")
				return false
			}
			if seen[d] {
				c.Fail("open_no_repeat", "open_contains_descriptor_twice", sdName(d), "once")
				return false
			}
			seen[d] = true
			if in.seq < last {
				c.Fail("open_order", "open_not_in_opening_order", sdName(d), "ascending opening order")
				return false
			}
			last = in.seq
		}
		if len(o) >= 4 {
			c.Probe("open_depth_ge4")
			if len(o) >= 64 {
				c.Probe("open_depth_ge64")
			}
			if len(o) >= 256 {
				c.Probe("open_depth_ge256")
			}
		}
		return true
	}
	sameList := func(a, b []scte35.SegmentationDescriptor) bool {
		if len(a) != len(b) {
			return false
		}
		for i := range a {
			if a[i] != b[i] {
				return false
			}
		}
		return true
	}
	inList := func(l []scte35.SegmentationDescriptor, d scte35.SegmentationDescriptor) bool {
		for _, x := range l {
			if x == d {
				return true
			}
		}
		return false
	}
	// checkClosed validates a returned closed list; explicit = result of Close
	checkClosed := func(incoming scte35.SegmentationDescriptor, closed, before []scte35.SegmentationDescriptor, explicit bool) bool {
		last := int(^uint(0) >> 1)
		seen := map[scte35.SegmentationDescriptor]bool{}
		for _, x := range closed {
			in := info[x]
			if x == nil || in == nil {
				c.Fail("closed_was_open", "closed_never_processed", "unknown descriptor", "an open descriptor")
				return false
			}
			if in.gone {
				c.Fail("closed_once", "closed_returned_twice", sdName(x), "at most once")
				return false
			}
			if seen[x] {
				c.Fail("closed_once", "closed_twice_in_one_list", sdName(x), "once")
				return false
			}
			seen[x] = true
			if !inList(before, x) && !isPending(x) {
				c.Fail("closed_was_open", "closed_but_was_not_open", sdName(x), "member of Open() before the call (or the pending breakaway)")
				return false
			}
			okRule := false
			var fi, fx ref.SegFacts
			if !c.Call("descriptor getters", func() { fi, fx = c10Facts(incoming), c10Facts(x) }) {
				return false
			}
			// the closing rules and equality as documented (ref/closing.go), not as the tracker's
			// own CanClose / Equal happen to answer
			if explicit {
				okRule = ref.SegEqual(fi, fx)
			} else {
				okRule = ref.CanClose(fi, fx)
			}
			if !okRule {
				what := "closed_against_closing_rules"
				if explicit {
					what = "explicit_close_removed_a_descriptor_that_is_not_equal"
				}
				c.Fail("closed_by_rule", what, sdName(incoming)+" closed "+sdName(x), "closable / equal under the documented rules")
				return false
			}
			if in.seq > last {
				c.Fail("closed_order", "closed_not_last_opened_first", sdName(x), "descending opening order")
				return false
			}
			last = in.seq
		}
		for _, x := range closed {
			info[x].gone = true
			if isPending(x) {
				unpend(x)
				if explicit {
					c.Probe("breakaway_then_explicit_close")
				} else {
					c.Probe("breakaway_then_closer")
				}
			}
		}
		return true
	}

	scripted := map[scte35.SegmentationDescriptor]C10Signal{} // descriptor object -> the scripted signal it came with
	var process func(d scte35.SegmentationDescriptor, spec *C10Desc, twice bool, sigT int64) bool
	process = func(d scte35.SegmentationDescriptor, spec *C10Desc, twice bool, sigT int64) bool {
		before, ok := getOpen()
		if !ok {
			return false
		}
		if info[d] == nil {
			nproc++
			info[d] = &c10Info{seq: nproc, typ: int(d.TypeID())}
		}
		if d.IsEventCanceled() {
			c.Probe("descriptor_with_cancel_indicator")
		}
		// whether the signal carries a time is what the script says, not what the library's
		// own HasPTS() answers
		hasPTS := d.SCTE35().HasPTS()
		sigShift := int64(0)
		if sgi, ok := scripted[d]; ok {
			hasPTS, sigShift = !sgi.NoPTS, sgi.Shift
		}
		var closed []scte35.SegmentationDescriptor
		var err error
		a0 := core.HeapAllocs()
		if !c.Call("State.ProcessDescriptor", func() { closed, err = st.ProcessDescriptor(d) }) {
			return false
		}
		// "No call panics" includes the call that takes the process down by exhausting memory.
		// A tracker holds a ten-entry duplicate ring and a stack of open descriptors; one call has
		// no business allocating tens of megabytes, whatever the history (at most a few thousand
		// calls here). Growth that doubles per call crosses this line long before it is fatal.
		if a := core.HeapAllocs() - a0; a > 64<<20 {
			c.Probe("call_allocated_>64MiB")
			c.Fail("no_call_panics", "alloc:State.ProcessDescriptor", fmt.Sprintf("%d MiB allocated by one call (call number %d of this history)", a>>20, nproc), "well under 64 MiB")
			return false
		}
		hold(closed, "closed")
		c.Log("t=%d process %s -> closed=%d err=%v", now, sdName(d), len(closed), err)
		c.Unit("tracker_calls", 1)
		hadBreakaway := len(pending) > 0
		if !checkClosed(d, closed, before, false) {
			return false
		}
		after, ok := getOpen()
		if !ok {
			return false
		}
		if !hasPTS {
			c.Probe("no_pts")
			if spec != nil && sigShift != 0 {
				c.Probe("no_pts_but_pts_adjustment")
			}
			if err == nil {
				c.Fail("no_pts_rejected", "descriptor_without_pts_accepted", nil, "an error")
				return false
			}
			if !sameList(before, after) || len(closed) > 0 {
				c.Fail("no_pts_rejected", "descriptor_without_pts_changed_open_list", len(after), len(before))
				return false
			}
			return true
		}
		rejectedEarly := err == gots.ErrSCTE35DuplicateDescriptor || err == gots.ErrSCTE35UnsupportedSpliceCommand || err == gots.ErrVSSSignalIdNotFound
		typ := int(d.TypeID())
		if !rejectedEarly {
			switch typ {
			case 0x13:
				if len(pending) > 0 {
					c.Probe("second_breakaway")
				}
				pending = append(pending, d)
			case 0x14:
				if len(pending) > 0 {
					c.Probe("resumption_with_breakaway")
					// everything that vanished is discarded by the resumption, and so is the
					// most recent pending breakaway
					b := pending[len(pending)-1]
					for _, x := range before {
						// only what was opened after that breakaway is discarded; an older
						// pending breakaway may merely be hidden from Open() again
						if !inList(after, x) && !inList(closed, x) && info[x].seq > info[b].seq {
							info[x].gone = true
							unpend(x)
						}
					}
					info[b].gone = true
					unpend(b)
				} else {
					c.Probe("resumption_without_breakaway")
				}
			}
		}
		if !checkOpen(after) {
			return false
		}
		if len(closed) > 0 && hadBreakaway && len(pending) > 0 {
			// something below/around a pending breakaway was closed by a rule
			c.Probe("closed_while_breakaway_pending")
		}
		// arm the duration timer, as doc.go instructs
		if spec != nil && spec.Dur > 0 && d.HasDuration() && !rejectedEarly {
			fire := sigT + spec.Dur + spec.Jitter
			if fire < now {
				fire = now
			}
			if spec.Jitter < 0 {
				c.Fault("timer_fire_early")
			} else if spec.Jitter > 0 {
				c.Fault("timer_fire_late")
			}
			tm := func() {
				b, ok := getOpen()
				if !ok {
					return
				}
				if info[d].gone {
					c.Fault("timer_fire_after_closed")
				}
				var cl []scte35.SegmentationDescriptor
				var e error
				if !c.Call("State.Close(timer)", func() { cl, e = st.Close(d) }) {
					return
				}
				hold(cl, "closed")
				c.Log("t=%d timer close %s -> closed=%d err=%v", now, sdName(d), len(cl), e)
				c.Unit("tracker_calls", 1)
				if e == nil {
					c.Probe("timer_close_hit")
				} else {
					c.Probe("timer_close_miss")
				}
				if e == nil && len(cl) != 1 {
					c.Fail("explicit_close", "close_returned_wrong_count", len(cl), 1)
					return
				}
				if !checkClosed(d, cl, b, true) {
					return
				}
				if a, ok := getOpen(); ok {
					checkOpen(a)
				}
			}
			push(fire, "timer", tm)
			if spec.Twice {
				c.Fault("timer_fire_twice")
				push(fire+int64(spec.Dur%7)+1, "timer2", tm)
			}
		}
		if twice {
			c.Probe("same_object_twice")
			c.Fault("chan_dup_same_object")
			var closed2 []scte35.SegmentationDescriptor
			var err2 error
			if !c.Call("State.ProcessDescriptor(repeat)", func() { closed2, err2 = st.ProcessDescriptor(d) }) {
				return false
			}
			c.Log("t=%d repeat %s -> closed=%d err=%v", now, sdName(d), len(closed2), err2)
			after2, ok := getOpen()
			if !ok {
				return false
			}
			if err2 == nil {
				c.Fail("duplicate_rejected", "immediate_duplicate_accepted", nil, "ErrSCTE35DuplicateDescriptor")
				return false
			}
			if err == nil && err2 != gots.ErrSCTE35DuplicateDescriptor {
				c.Fail("duplicate_rejected", "immediate_duplicate_wrong_error", err2, "ErrSCTE35DuplicateDescriptor")
				return false
			}
			if !sameList(after, after2) || len(closed2) > 0 {
				c.Fail("duplicate_rejected", "immediate_duplicate_changed_open_list", len(after2), len(after))
				return false
			}
		}
		return true
	}

	// deliver builds (and optionally transports) the signal and processes each descriptor
	deliver := func(stp C10Step) {
		if stp.Sig < 0 || stp.Sig >= len(s.Signals) {
			return
		}
		sg := s.Signals[stp.Sig]
		sc, ds := c10Build(sg, s.Base)
		if uint64(s.Base+sg.T) >= uint64(ptsMod) && s.Base < ptsMod {
			c.Probe("pts_wrap")
		}
		if len(sg.Descs) > 1 {
			c.Probe("multi_descriptor_signal")
		}
		if s.Transport {
			var data []byte
			if !c.Call("SCTE35.UpdateData", func() { data = sc.UpdateData() }) {
				return
			}
			payload := append([]byte{0}, data...)
			pk := parties.Packetise(payload, parties.Carrier{PID: 0x1F0, CC: stp.Sig, Sizes: s.Sizes})
			acc := packet.NewAccumulator(scte35.SCTE35AccumulatorDoneFunc)
			done := false
			for i := range pk {
				p := packet.Packet(pk[i])
				var err error
				if !c.Call("Accumulator.WritePacket", func() { _, err = acc.WritePacket(&p) }) {
					return
				}
				if err == gots.ErrAccumulatorDone {
					done = true
					break
				}
			}
			c.Unit("packets_on_wire", int64(len(pk)))
			if !done {
				c.Fail("transport", "transport:section_never_completed", "not done", "done")
				return
			}
			var dec scte35.SCTE35
			var err error
			if !c.Call("scte35.NewSCTE35", func() { dec, err = scte35.NewSCTE35(acc.Bytes()) }) {
				return
			}
			if err != nil {
				c.Fail("transport", "transport:decode_error", err, nil)
				return
			}
			ds = dec.Descriptors()
			if !sg.NoPTS {
				// the signal time survives the trip: pts_time + pts_adjustment modulo 2^33
				want := uint64(s.Base+sg.T) % uint64(ptsMod)
				var got uint64
				var has bool
				if !c.Call("SCTE35.PTS(decoded)", func() { got, has = uint64(dec.PTS()), dec.HasPTS() }) {
					return
				}
				if !has || got != want {
					c.Fail("transport", "transport:signal_time_changed", fmt.Sprint(has, got), fmt.Sprint(true, want))
					return
				}
				if sg.Shift != 0 {
					c.Probe("restamped_signal_through_transport")
					if uint64(s.Base+sg.T-sg.Shift%ptsMod+ptsMod)%uint64(ptsMod)+uint64(sg.Shift%ptsMod) >= uint64(ptsMod) {
						c.Probe("pts_time_plus_adjustment_wraps")
					}
				}
			}
		}
		switch stp.Fault {
		case "dup":
			c.Fault("chan_dup")
		case "late_dup":
			c.Fault("chan_late_dup")
		case "reorder":
			c.Fault("chan_reorder")
		}
		for i, d := range ds {
			var spec *C10Desc
			if i < len(sg.Descs) {
				spec = &sg.Descs[i]
				if spec.VSS != "" {
					c.Probe("vss_pair")
				}
			}
			scripted[d] = sg
			if !process(d, spec, stp.Twice && i == 0, sg.T) {
				return
			}
			if c.Failed() {
				return
			}
		}
	}
	explicitClose := func(stp C10Step, unknown bool) {
		if stp.Sig < 0 || stp.Sig >= len(s.Signals) {
			return
		}
		sg := s.Signals[stp.Sig]
		if stp.Kind == "close_near" && stp.Desc >= 0 && stp.Desc < len(sg.Descs) {
			// a near-copy: everything as delivered but one field
			sg.Descs = append([]C10Desc(nil), sg.Descs...)
			var k int
			switch {
			case scanNear(stp.Near, "pts:", &k):
				sg.T += int64(1) << uint(k&63%33)
			case scanNear(stp.Near, "adj:", &k):
				sg.T += int64(1) << uint(k&63%33)
				sg.Shift += int64(1) << uint(k&63%33)
				c.Probe("close_with_same_pts_time_under_another_adjustment")
			case scanNear(stp.Near, "split:", &k):
				sg.Shift += int64(1) << uint(k&63%33)
			case scanNear(stp.Near, "event:", &k):
				sg.Descs[stp.Desc].Event ^= 1 << uint(k&31)
			case stp.Near == "seg":
				sg.Descs[stp.Desc].SegNum ^= 1
			case stp.Near == "sub":
				// the same descriptor with / without (zero-valued) sub-segment fields
				d := &sg.Descs[stp.Desc]
				if d.Type != 0x34 && d.Type != 0x36 {
					d.Type = 0x34
				}
				d.Sub = !d.Sub
			default:
				sg.Descs[stp.Desc].Type ^= 1
			}
			c.Fault("caller_close_near_copy")
		}
		if unknown {
			// a descriptor the tracker has never seen: shift the event id out of range
			sg.Descs = append([]C10Desc(nil), sg.Descs...)
			for i := range sg.Descs {
				sg.Descs[i].Event += 0x40000000
			}
			c.Fault("caller_close_unknown")
		}
		_, ds := c10Build(sg, s.Base)
		if stp.Desc < 0 || stp.Desc >= len(ds) {
			return
		}
		d := ds[stp.Desc]
		before, ok := getOpen()
		if !ok {
			return
		}
		var lastPending scte35.SegmentationDescriptor
		if len(pending) > 0 {
			lastPending = pending[len(pending)-1]
		}
		var cl []scte35.SegmentationDescriptor
		var err error
		if !c.Call("State.Close", func() { cl, err = st.Close(d) }) {
			return
		}
		hold(cl, "closed")
		c.Log("t=%d close %s -> closed=%d err=%v", now, sdName(d), len(cl), err)
		c.Unit("tracker_calls", 1)
		if err == nil && len(cl) != 1 {
			c.Fail("explicit_close", "close_returned_wrong_count", len(cl), 1)
			return
		}
		if err != nil && len(cl) != 0 {
			c.Fail("explicit_close", "close_failed_but_returned_descriptors", len(cl), 0)
			return
		}
		if len(cl) == 1 && lastPending != nil && cl[0] != lastPending && info[cl[0]] != nil && info[cl[0]].seq < info[lastPending].seq {
			c.Probe("breakaway_then_explicit_close_below")
		}
		if !checkClosed(d, cl, before, true) {
			return
		}
		if a, ok := getOpen(); ok {
			checkOpen(a)
		}
	}

	ringDist := map[int]int{} // signal index -> number of distinct signals delivered since its first delivery
	delivered := 0
	firstAt := map[int]int{}
	for i := range s.Steps {
		stp := s.Steps[i]
		idx := i
		push(stp.At, stp.Kind, func() {
			c.SetStep(idx)
			switch stp.Kind {
			case "signal":
				if f, ok := firstAt[stp.Sig]; ok {
					if delivered-f <= 10 {
						c.Probe("dup_within_ring")
					} else {
						c.Probe("dup_beyond_ring")
					}
				} else {
					firstAt[stp.Sig] = delivered
				}
				delivered++
				deliver(stp)
			case "close", "close_near":
				explicitClose(stp, false)
			case "close_unknown":
				explicitClose(stp, true)
			}
		})
	}
	_ = ringDist
	events := 0
	for h.Len() > 0 && !c.Failed() && events < 5000 {
		ev := heap.Pop(&h).(*c10Event)
		if ev.at > now {
			now = ev.at
		}
		events++
		ev.run()
	}
	c.Unit("sim_ticks_90khz", now)
	c.Unit("events", int64(events))
}

func (c10) Shrink(script interface{}) []interface{} {
	s := script.(*C10Script)
	var out []interface{}
	cp := func() *C10Script {
		n := *s
		n.Steps = append([]C10Step(nil), s.Steps...)
		n.Signals = make([]C10Signal, len(s.Signals))
		for i, sg := range s.Signals {
			n.Signals[i] = sg
			n.Signals[i].Descs = append([]C10Desc(nil), sg.Descs...)
		}
		n.Sizes = append([]int(nil), s.Sizes...)
		return &n
	}
	for i := range s.Blocks {
		n := cp()
		n.Blocks = append(append([]C10Block(nil), s.Blocks[:i]...), s.Blocks[i+1:]...)
		out = append(out, n)
		if s.Blocks[i].Count > 1 {
			for _, cnt := range []int{s.Blocks[i].Count / 2, s.Blocks[i].Count - 1} {
				n := cp()
				n.Blocks = append([]C10Block(nil), s.Blocks...)
				n.Blocks[i].Count = cnt
				out = append(out, n)
			}
		}
	}
	for _, keep := range core.DropChunks(len(s.Steps)) {
		n := cp()
		n.Steps = nil
		for _, i := range keep {
			n.Steps = append(n.Steps, s.Steps[i])
		}
		out = append(out, n)
	}
	if s.Transport {
		n := cp()
		n.Transport, n.Sizes = false, nil
		out = append(out, n)
	}
	if s.Base != 0 {
		n := cp()
		n.Base = 0
		out = append(out, n)
	}
	if s.Dropped != 0 {
		n := cp()
		n.Dropped = 0
		out = append(out, n)
	}
	for i, st := range s.Steps {
		if len(s.Steps) > 200 {
			break
		}
		if st.Twice {
			n := cp()
			n.Steps[i].Twice = false
			out = append(out, n)
		}
		if st.Fault != "" {
			n := cp()
			n.Steps[i].Fault = ""
			out = append(out, n)
		}
		if st.At != int64(i) {
			n := cp()
			for k := range n.Steps { // normalise arrival times to the step order
				n.Steps[k].At = int64(k)
			}
			out = append(out, n)
			break
		}
	}
	used := map[int]bool{}
	for _, st := range s.Steps {
		used[st.Sig] = true
	}
	for i, sg := range s.Signals {
		if !used[i] || len(used) > 200 {
			continue
		}
		if len(sg.Descs) > 1 {
			for k := range sg.Descs {
				n := cp()
				n.Signals[i].Descs = append(append([]C10Desc(nil), sg.Descs[:k]...), sg.Descs[k+1:]...)
				out = append(out, n)
			}
		}
		for k, d := range sg.Descs {
			if d.Dur != 0 || d.Twice || d.Jitter != 0 {
				n := cp()
				n.Signals[i].Descs[k].Dur, n.Signals[i].Descs[k].Twice, n.Signals[i].Descs[k].Jitter = 0, false, 0
				out = append(out, n)
			}
			if d.VSS != "" || d.Sub || d.SegNum != 0 || d.SegExp != 0 {
				n := cp()
				n.Signals[i].Descs[k].VSS, n.Signals[i].Descs[k].Sub = "", false
				n.Signals[i].Descs[k].SegNum, n.Signals[i].Descs[k].SegExp = 0, 0
				out = append(out, n)
			}
			if d.Event > 3 {
				n := cp()
				n.Signals[i].Descs[k].Event = d.Event%3 + 1
				out = append(out, n)
			}
		}
		if sg.T > 270000 {
			n := cp()
			n.Signals[i].T = int64(i%4) * 90000
			out = append(out, n)
		}
	}
	// drop unused signals (renumber)
	if len(used) < len(s.Signals) {
		n := cp()
		remap := map[int]int{}
		var sigs []C10Signal
		for i, sg := range n.Signals {
			if used[i] {
				remap[i] = len(sigs)
				sigs = append(sigs, sg)
			}
		}
		n.Signals = sigs
		for k := range n.Steps {
			n.Steps[k].Sig = remap[n.Steps[k].Sig]
		}
		out = append(out, n)
	}
	return out
}
