package props

import (
	"bytes"
	"fmt"

	"github.com/Comcast/gots/v2/packet"
	"github.com/Comcast/gots/v2/packet/adaptationfield"

	"verif/sim/core"
)

// C03 - adaptation field under any edit history: a logical adaptation field
// (reference model) is compared with the 188 packet bytes after every setter
// call; calls that cannot be honoured must be refused atomically.

// AFSpec is a logical adaptation field (also used for the source of a copy).
type AFSpec struct {
	L       int      `json:"l"` // adaptation_field_length 1..183 (183 <=> no payload)
	Disc    bool     `json:"disc,omitempty"`
	RAI     bool     `json:"rai,omitempty"`
	ESPI    bool     `json:"espi,omitempty"`
	HasPCR  bool     `json:"has_pcr,omitempty"`
	PCR     uint64   `json:"pcr,omitempty"`
	HasOPCR bool     `json:"has_opcr,omitempty"`
	OPCR    uint64   `json:"opcr,omitempty"`
	HasSpl  bool     `json:"has_splice,omitempty"`
	Splice  int      `json:"splice,omitempty"`
	HasPriv bool     `json:"has_priv,omitempty"`
	Priv    core.Hex `json:"priv,omitempty"`
	HasExt  bool     `json:"has_ext,omitempty"`
	Ext     core.Hex `json:"ext,omitempty"`
}

type C03Op struct {
	Op   string   `json:"op"` // disc rai espi has_pcr has_opcr has_splice has_priv has_ext pcr opcr splice priv ext copy
	V    bool     `json:"v,omitempty"`
	U    uint64   `json:"u,omitempty"`
	Data core.Hex `json:"data,omitempty"`
	Src  *AFSpec  `json:"src,omitempty"`
}

type C03Script struct {
	Init AFSpec  `json:"init"`
	Salt int     `json:"salt"`
	Ops  []C03Op `json:"ops"`
}

type c03 struct{}

func init() { core.Register(c03{}) }

func (c03) ID() string       { return "C03" }
func (c03) New() interface{} { return &C03Script{} }
func (c03) Info() core.Info {
	return core.Info{
		Runs: map[string]int{"quick": 2000000, "thorough": 150000000},
		Rule: "Each run starts from a well-formed packet built by the reference serialiser (adaptation_field_length 1..182 with payload or 183 without, any legal subset of optional fields already present, random header and payload) and applies a scripted history of <=40 adaptation-field setter calls (flags, presence toggles incl. repeats of the current value, PCR/OPCR/splice countdown values, private data / extension of length 0..190 biased to 'exactly fills' and 'one too many', value setters for absent fields, SetAdaptationField from another generated packet or the packet itself, read-a-timestamp-and-write-it-back; private data is random or a run of EBP-style tag/length/identifier descriptors). After every call the 188 bytes are compared with the ISO serialisation of a logical adaptation-field model (wildcards for timestamps that became present but were never set), every method and function-style getter is checked, and a call the model says cannot be honoured must return an error and leave all 188 bytes unchanged (capacity exhaustion is the injected fault). Plus a complete sweep of all histories of length <=4 (quick) / <=5 (thorough) over a 12-letter alphabet for 9 adaptation_field_length values. Non-trivial = at least one reach probe fired. Added in waves 19-21: after every step the slices the getters returned are held while a second, unrelated packet is read; private data / extension values may be the getter's own view handed back (edited in place or not), are the front of a longer caller buffer whose remaining bytes must stay untouched, and may extend / truncate / shift the value in place; the packet a field is copied from must be unchanged.",
		Real: []string{"(*AdaptationField) setters and getters", "(*Packet).SetAdaptationField", "(*Packet).AdaptationField", "packet/adaptationfield function-style readers", "gots.InsertPCR/ExtractPCR"},
		Stub: []string{"caller (scripted edit history)", "reference adaptation-field serialiser"},
		Assumptions: []string{
			"method getters for private data / extension may return data or length-byte+data (the pinned suite fixes the latter shape)",
			"bytes of a PCR/OPCR/splice countdown that became present but was never set are unconstrained until set",
			"initial packets are ISO-valid: AFC=11 with L<=182 or AFC=10 with L=183",
		},
		RequiredProbes: []string{"af_full_refusal", "exact_fit", "toggle_off_nonempty_private", "toggle_off_nonempty_extension", "toggle_repeat_same_value", "shrink_private_before_extension", "copy_af_too_large", "copy_af_fits", "L_eq_183", "L_le_7", "value_for_absent_field", "grow_private", "all_fields_present", "pcr_at_33_bit_limit", "copy_from_same_packet", "value_of_256_bytes_or_more", "timestamp_written_back_over_leftover_bytes"},
	}
}

func (a AFSpec) content() int {
	n := 1
	if a.HasPCR {
		n += 6
	}
	if a.HasOPCR {
		n += 6
	}
	if a.HasSpl {
		n++
	}
	if a.HasPriv {
		n += 1 + len(a.Priv)
	}
	if a.HasExt {
		n += 1 + len(a.Ext)
	}
	return n
}

func pcrBytes(v uint64) []byte {
	base, ext := v/300, v%300
	return []byte{byte(base >> 25), byte(base >> 17), byte(base >> 9), byte(base >> 1), byte(base<<7) | 0x7E | byte(ext>>8), byte(ext)}
}

// afModel is the logical adaptation field plus knowledge of which timestamp
// bytes are pinned.
type afModel struct {
	AFSpec
	pcrKnown, opcrKnown, splKnown bool
	hdr                           [4]byte
	payload                       []byte
}

// serialise returns the 188 bytes and a mask (true = byte must match).
func (m *afModel) serialise() ([]byte, []bool) {
	b := make([]byte, 0, 188)
	mask := make([]bool, 0, 188)
	put := func(x []byte, known bool) {
		b = append(b, x...)
		for range x {
			mask = append(mask, known)
		}
	}
	put(m.hdr[:], true)
	put([]byte{byte(m.L)}, true)
	fl := byte(0)
	for i, f := range []bool{m.Disc, m.RAI, m.ESPI, m.HasPCR, m.HasOPCR, m.HasSpl, m.HasPriv, m.HasExt} {
		if f {
			fl |= 0x80 >> uint(i)
		}
	}
	put([]byte{fl}, true)
	if m.HasPCR {
		put(pcrBytes(m.PCR), m.pcrKnown)
	}
	if m.HasOPCR {
		put(pcrBytes(m.OPCR), m.opcrKnown)
	}
	if m.HasSpl {
		put([]byte{byte(m.Splice)}, m.splKnown)
	}
	if m.HasPriv {
		put([]byte{byte(len(m.Priv))}, true)
		put(m.Priv, true)
	}
	if m.HasExt {
		put([]byte{byte(len(m.Ext))}, true)
		put(m.Ext, true)
	}
	for len(b) < 5+m.L {
		put([]byte{0xFF}, true)
	}
	put(m.payload, true)
	return b, mask
}

func genAF(r *core.Rand, l int) AFSpec {
	a := AFSpec{L: l, Disc: r.Bool(), RAI: r.Bool(), ESPI: r.Bool()}
	room := l - 1
	if r.Chance(1, 3) {
		return a
	}
	if room >= 6 && r.Bool() {
		a.HasPCR, a.PCR = true, r.U64()%(uint64(1)<<33*300)
		room -= 6
	}
	if room >= 6 && r.Chance(1, 3) {
		a.HasOPCR, a.OPCR = true, r.U64()%(uint64(1)<<33*300)
		room -= 6
	}
	if room >= 1 && r.Chance(1, 3) {
		a.HasSpl, a.Splice = true, r.Intn(256)
		room--
	}
	if room >= 1 && r.Bool() {
		n := r.Pick(0, 1, 3, 10, room-1, r.Intn(room))
		if n > room-1 {
			n = room - 1
		}
		if n < 0 {
			n = 0
		}
		a.HasPriv, a.Priv = true, c03Data(r, n)
		room -= 1 + n
	}
	if room >= 1 && r.Chance(1, 3) {
		n := r.Pick(0, 1, 2, 8, room-1, r.Intn(room))
		if n > room-1 {
			n = room - 1
		}
		if n < 0 {
			n = 0
		}
		a.HasExt, a.Ext = true, r.Bytes(n)
		room -= 1 + n
	}
	return a
}

// c03Data: k bytes of private data / extension: random, or what such fields really carry -
// a run of tag/length/identifier descriptors (CableLabs EBP 0xDF "EBP0", Comcast EBP 0xA9,
// others) with or without bytes in front, cut to the length. To the setters and getters it is
// all opaque data.
func c03Data(r *core.Rand, k int) core.Hex {
	if k < 6 || r.Chance(2, 3) {
		return r.Bytes(k)
	}
	var b []byte
	for len(b) < k {
		body := r.Bytes(r.Range(1, 12))
		switch r.Intn(5) {
		case 0:
			b = append(b, r.Bytes(r.Range(1, 4))...)
		case 1, 2:
			b = append(b, 0xDF, byte(4+len(body)), 'E', 'B', 'P', '0')
			b = append(b, body...)
		case 3:
			b = append(b, 0xA9, byte(len(body)))
			b = append(b, body...)
		case 4:
			b = append(b, byte(r.Pick(0xDF, 0xA9, 0x05, 0xFF)), byte(4+len(body)), byte(r.Range('A', 'Z')), byte(r.Range('A', 'Z')), byte(r.Range('A', 'Z')), byte(r.Range('0', '9')))
			b = append(b, body...)
		}
	}
	return core.Hex(b[:k])
}

func (c03) Gen(r *core.Rand, tier string) interface{} {
	s := &C03Script{Salt: r.Intn(1 << 20)}
	l := r.Pick(1, 2, 7, 8, 13, 14, 15, 20, 30, 100, 181, 182, 183, 183, r.Range(1, 183))
	s.Init = genAF(r, l)
	n := r.Pick(1, 2, 3, 5, 8, 12, 20, 40)
	if tier == "thorough" && r.Chance(1, 8) {
		n = r.Pick(80, 150, 300)
	}
	// a shadow of presence/room so that argument sizes can be biased to the edge
	cur := s.Init
	for i := 0; i < n; i++ {
		var op C03Op
		room := cur.L - cur.content()
		switch r.Intn(16) {
		case 0:
			op = C03Op{Op: r.PickS("disc", "rai", "espi"), V: r.Bool()}
		case 1, 2, 3, 4, 5:
			op = C03Op{Op: r.PickS("has_pcr", "has_opcr", "has_splice", "has_priv", "has_priv", "has_ext", "has_ext"), V: r.Chance(3, 5)}
		case 6:
			max := uint64(1)<<33*300 - 1 // base 2^33-1, extension 299: the largest value that fits in 33+9 bits
			vals := []uint64{0, 1, 299, 300, max, max - 1, max - 298, max - 299, max - 300, (uint64(1)<<33 - 1) * 300, uint64(1) << 32 * 300, r.U64() % (max + 1), r.U64() % (max + 1), r.U64() % (max + 1)}
			op = C03Op{Op: r.PickS("pcr", "opcr"), U: vals[r.Intn(len(vals))]}
			if r.Chance(1, 4) {
				op = C03Op{Op: r.PickS("pcr_echo", "opcr_echo")}
			}
		case 7:
			op = C03Op{Op: "splice", U: uint64(r.Intn(256))}
		case 8, 9, 10, 11, 12:
			which := r.PickS("priv", "priv", "ext")
			old := len(cur.Priv)
			if which == "ext" {
				old = len(cur.Ext)
			}
			fit := room + old // the largest length that still fits
			k := r.Pick(0, 1, 2, 5, fit, fit, fit+1, fit-1, fit/2, r.Intn(191), 255, 256, 260, 300, 511, 512)
			if k < 0 {
				k = 0
			}
			if k > 600 {
				k = 600
			}
			op = C03Op{Op: which, Data: c03Data(r, k)}
			if r.Chance(1, 12) {
				op = C03Op{Op: which + "_self", V: r.Bool()}
			} else if prev := map[bool]core.Hex{true: cur.Ext, false: cur.Priv}[which == "ext"]; len(prev) >= 2 && r.Chance(1, 4) {
				// a value that is related to the one in place: the old one with a short tail appended
				// (descriptors added one at a time), a prefix of it, the old one moved by a byte
				var d core.Hex
				switch r.Intn(4) {
				case 0, 1:
					d = append(append(core.Hex(nil), prev...), r.Bytes(r.Range(1, len(prev)-1))...)
				case 2:
					d = append(core.Hex(nil), prev[:r.Range(1, len(prev)-1)]...)
				default:
					d = append(append(core.Hex(nil), prev[1:]...), byte(r.Intn(256)))
				}
				op.Data = d
			}
		case 13:
			if r.Chance(1, 4) {
				op = C03Op{Op: "copy_self"} // SetAdaptationField with the packet's own field
			} else {
				src := genAF(r, r.Pick(1, 7, 20, 100, 182, 183, cur.L, r.Range(1, 183)))
				op = C03Op{Op: "copy", Src: &src}
			}
		default:
			op = C03Op{Op: r.PickS("has_pcr", "has_opcr", "has_splice", "has_priv", "has_ext"), V: true}
		}
		s.Ops = append(s.Ops, op)
		// advance the shadow optimistically (only presence and lengths matter here)
		applyShadow(&cur, op)
	}
	return s
}

// applyShadow applies an operation to a logical AF if it can be honoured;
// it reports (honoured, refusedBecauseAbsent, refusedBecauseFull).
func applyShadow(a *AFSpec, op C03Op) (bool, bool, bool) {
	n := *a
	switch op.Op {
	case "disc":
		n.Disc = op.V
	case "rai":
		n.RAI = op.V
	case "espi":
		n.ESPI = op.V
	case "has_pcr":
		if n.HasPCR != op.V {
			n.HasPCR, n.PCR = op.V, 0
		}
	case "has_opcr":
		if n.HasOPCR != op.V {
			n.HasOPCR, n.OPCR = op.V, 0
		}
	case "has_splice":
		if n.HasSpl != op.V {
			n.HasSpl, n.Splice = op.V, 0
		}
	case "has_priv":
		if n.HasPriv != op.V {
			n.HasPriv, n.Priv = op.V, nil
		}
	case "has_ext":
		if n.HasExt != op.V {
			n.HasExt, n.Ext = op.V, nil
		}
	case "pcr_echo", "opcr_echo":
		// (generator shadow only; the executor turns these into pcr/opcr with the value read)
	case "pcr":
		if !n.HasPCR {
			return false, true, false
		}
		n.PCR = op.U
	case "opcr":
		if !n.HasOPCR {
			return false, true, false
		}
		n.OPCR = op.U
	case "splice":
		if !n.HasSpl {
			return false, true, false
		}
		n.Splice = int(op.U & 0xff)
	case "priv":
		if !n.HasPriv {
			return false, true, false
		}
		n.Priv = append(core.Hex(nil), op.Data...)
	case "ext":
		if !n.HasExt {
			return false, true, false
		}
		n.Ext = append(core.Hex(nil), op.Data...)
	case "copy":
		if op.Src == nil {
			return true, false, false
		}
		l := n.L
		n = *op.Src
		n.L = l
	}
	if n.content() > n.L || len(n.Priv) > 255 || len(n.Ext) > 255 {
		return false, false, true
	}
	*a = n
	return true, false, false
}

var c03Alpha = []C03Op{
	{Op: "has_pcr", V: true}, {Op: "has_pcr", V: false},
	{Op: "has_opcr", V: true}, {Op: "has_opcr", V: false},
	{Op: "has_splice", V: true}, {Op: "has_splice", V: false},
	{Op: "has_priv", V: true}, {Op: "has_priv", V: false},
	{Op: "has_ext", V: true}, {Op: "has_ext", V: false},
	{Op: "priv", Data: core.Hex{1, 2, 3}}, {Op: "ext", Data: core.Hex{9, 8}},
}
var c03SweepL = []int{1, 7, 8, 13, 14, 15, 20, 182, 183}

func c03SweepDepth(tier string) int {
	if tier == "thorough" {
		return 5
	}
	return 4
}

func (c03) SweepSize(tier string) int {
	n, p := 0, 1
	for l := 1; l <= c03SweepDepth(tier); l++ {
		p *= len(c03Alpha)
		n += p
	}
	return n * len(c03SweepL)
}

func (c03) SweepCase(tier string, i int) interface{} {
	li := i % len(c03SweepL)
	i /= len(c03SweepL)
	l, p := 1, len(c03Alpha)
	for i >= p {
		i -= p
		l++
		p *= len(c03Alpha)
	}
	s := &C03Script{Init: AFSpec{L: c03SweepL[li]}, Salt: 5}
	for k := 0; k < l; k++ {
		s.Ops = append(s.Ops, c03Alpha[i%len(c03Alpha)])
		i /= len(c03Alpha)
	}
	return s
}

func (c03) Size(script interface{}) int {
	s := script.(*C03Script)
	n := len(s.Ops)*2 + len(s.Init.Priv)/8 + len(s.Init.Ext)/8
	for _, o := range s.Ops {
		n += len(o.Data) / 8
	}
	return n
}

// buildPacket serialises a logical AF into a full packet (known timestamps).
func buildAFPacket(a AFSpec, salt int) (packet.Packet, *afModel) {
	m := &afModel{AFSpec: a, pcrKnown: true, opcrKnown: true, splKnown: true}
	pid := 0x21 + salt%0x1f00
	m.hdr = [4]byte{0x47, byte(salt>>13)&0xE0 | byte(pid>>8)&0x1f, byte(pid), byte(salt>>3)&0xC0&0x80 | byte(salt&0x0f)}
	if a.L >= 183 {
		m.hdr[3] |= 0x20
	} else {
		m.hdr[3] |= 0x30
		m.payload = make([]byte, 188-5-a.L)
		for k := range m.payload {
			m.payload[k] = byte(salt + k*7 + 3)
		}
	}
	b, _ := m.serialise()
	var p packet.Packet
	copy(p[:], b)
	return p, m
}

func (c03) Exec(script interface{}, c *core.Ctx) {
	s := script.(*C03Script)
	init := s.Init
	if init.L < 1 {
		init.L = 1
	}
	if init.L > 183 {
		init.L = 183
	}
	if init.content() > init.L {
		// shrunk into an impossible initial field: drop optional fields
		init = AFSpec{L: init.L, Disc: init.Disc, RAI: init.RAI, ESPI: init.ESPI}
	}
	pkt, m := buildAFPacket(init, s.Salt)
	c.Log("c03 L=%d content=%d ops=%d", init.L, init.content(), len(s.Ops))
	c.Unit("operations", int64(len(s.Ops)))
	if init.L == 183 {
		c.Probe("L_eq_183")
	}
	if init.L <= 7 {
		c.Probe("L_le_7")
	}
	var af *packet.AdaptationField
	var err error
	if !c.Call("Packet.AdaptationField", func() { af, err = pkt.AdaptationField() }) {
		return
	}
	if err != nil || af == nil {
		c.Fail("get_af", "adaptation_field_not_returned", err, "the adaptation field")
		return
	}
	if !c03Getters(c, &pkt, af, m, "init") {
		return
	}
	for i, op := range s.Ops {
		c.SetStep(i)
		selfView := false
		if op.Op == "priv_self" || op.Op == "ext_self" {
			// the caller takes the view the getter hands out, possibly edits it in place, and
			// hands it back to the setter of the same packet: an ordinary set of that value
			cur := m.Priv
			if op.Op == "ext_self" {
				cur = m.Ext
			}
			d := append(core.Hex(nil), cur...)
			if op.V && len(d) > 0 {
				d[0] ^= 0x5A
			}
			op = C03Op{Op: op.Op[:len(op.Op)-5], Data: d, V: op.V}
			selfView = true
		}
		if op.Op == "pcr_echo" || op.Op == "opcr_echo" {
			// the caller reads the timestamp and writes the same value back: afterwards the
			// field is the ISO encoding of that value, whatever the six bytes were before
			// (reserved bits, an extension of 300..511 left behind by a presence toggle)
			var v uint64
			var gerr error
			which := op.Op[:len(op.Op)-5]
			if !c.Call("AdaptationField."+op.Op+"(get)", func() {
				if which == "pcr" {
					v, gerr = af.PCR()
				} else {
					v, gerr = af.OPCR()
				}
			}) {
				return
			}
			if max := uint64(1)<<33*300 - 1; gerr == nil && v > max {
				// leftover bytes with an extension of 300..511 on the largest base read as more
				// than 33+9 bits can hold; writing that back is outside the statement
				v, gerr = max, fmt.Errorf("not representable")
			}
			if gerr != nil {
				if v != 0 {
					c.Probe("timestamp_read_not_representable")
				}
			} else {
				c.Probe("timestamp_written_back")
				if (which == "pcr" && !m.pcrKnown) || (which == "opcr" && !m.opcrKnown) {
					c.Probe("timestamp_written_back_over_leftover_bytes")
				}
			}
			op = C03Op{Op: which, U: v}
		}
		before := pkt
		next := m.AFSpec
		honoured, absent, full := applyShadow(&next, op)
		qual := ""
		// probes / qualifiers for the signature
		switch op.Op {
		case "has_pcr", "has_opcr", "has_splice", "has_priv", "has_ext":
			cur := map[string]bool{"has_pcr": m.HasPCR, "has_opcr": m.HasOPCR, "has_splice": m.HasSpl, "has_priv": m.HasPriv, "has_ext": m.HasExt}[op.Op]
			if cur == op.V {
				c.Probe("toggle_repeat_same_value")
				qual = ":repeat"
				if (op.Op == "has_priv" && len(m.Priv) > 0) || (op.Op == "has_ext" && len(m.Ext) > 0) {
					qual = ":repeat_nonempty"
				}
			} else if !op.V && op.Op == "has_priv" && len(m.Priv) > 0 {
				c.Probe("toggle_off_nonempty_private")
				qual = ":nonempty"
			} else if !op.V && op.Op == "has_ext" && len(m.Ext) > 0 {
				c.Probe("toggle_off_nonempty_extension")
				qual = ":nonempty"
			}
		case "priv", "ext":
			if len(op.Data) >= 256 {
				c.Probe("value_of_256_bytes_or_more")
			}
			if op.Op != "priv" {
				break
			}
			if m.HasPriv && m.HasExt && len(op.Data) < len(m.Priv) {
				c.Probe("shrink_private_before_extension")
			}
			if m.HasPriv && len(op.Data) > len(m.Priv) {
				c.Probe("grow_private")
			}
		case "copy":
			if honoured {
				c.Probe("copy_af_fits")
			} else {
				c.Probe("copy_af_too_large")
			}
		}
		if absent {
			c.Probe("value_for_absent_field")
		}
		if full {
			c.Probe("af_full_refusal")
			c.Fault("af_capacity_exhausted")
		}
		if honoured && next.content() == next.L && next.content() != m.content() {
			c.Probe("exact_fit")
			qual += ":exact_fit"
		}
		if m.L == 183 {
			qual += ":L183"
		}
		var cerr error
		srcChanged := ""
		name := "AdaptationField." + op.Op
		okc := c.Call(name, func() {
			switch op.Op {
			case "disc":
				cerr = af.SetDiscontinuity(op.V)
			case "rai":
				cerr = af.SetRandomAccess(op.V)
			case "espi":
				cerr = af.SetElementaryStreamPriority(op.V)
			case "has_pcr":
				cerr = af.SetHasPCR(op.V)
			case "has_opcr":
				cerr = af.SetHasOPCR(op.V)
			case "has_splice":
				cerr = af.SetHasSplicingPoint(op.V)
			case "has_priv":
				cerr = af.SetHasTransportPrivateData(op.V)
			case "has_ext":
				cerr = af.SetHasAdaptationFieldExtension(op.V)
			case "pcr":
				if op.U >= (uint64(1)<<33-1)*300 {
					c.Probe("pcr_at_33_bit_limit")
				}
				cerr = af.SetPCR(op.U)
			case "opcr":
				cerr = af.SetOPCR(op.U)
			case "splice":
				cerr = af.SetSpliceCountdown(byte(op.U))
			case "priv", "ext":
				// the value is the front of a longer buffer of the caller's: the bytes behind it
				// are the caller's own and stay what they are
				backing := append(append([]byte(nil), op.Data...), 0xC3, 0x3C, 0xA5, 0x5A, 0x96, 0x69, 0x0F, 0xF0)
				arg := backing[:len(op.Data)]
				if selfView {
					var view []byte
					var gerr error
					if op.Op == "priv" {
						view, gerr = af.TransportPrivateData()
					} else {
						view, gerr = af.AdaptationFieldExtension()
					}
					if gerr == nil {
						if len(view) == len(op.Data)+1 {
							view = view[1:] // this getter hands out the length byte too
						}
						if len(view) == len(op.Data) {
							if op.V && len(view) > 0 {
								view[0] ^= 0x5A
							}
							arg = view
							c.Probe("value_set_from_the_getters_own_view")
						}
					}
				}
				if op.Op == "priv" {
					cerr = af.SetTransportPrivateData(arg)
				} else {
					cerr = af.SetAdaptationFieldExtension(arg)
				}
				if !bytes.Equal(backing[len(op.Data):], []byte{0xC3, 0x3C, 0xA5, 0x5A, 0x96, 0x69, 0x0F, 0xF0}) {
					srcChanged = "the bytes behind the value in the caller's buffer were overwritten"
				}
			case "copy_self":
				c.Probe("copy_from_same_packet")
				own, _ := pkt.AdaptationField()
				cerr = pkt.SetAdaptationField(own)
			case "copy":
				if op.Src != nil {
					src := *op.Src
					if src.L < 1 {
						src.L = 1
					}
					if src.L > 183 {
						src.L = 183
					}
					if src.content() > src.L {
						src = AFSpec{L: src.L}
					}
					sp, _ := buildAFPacket(src, s.Salt+1)
					spWas := sp
					saf, _ := sp.AdaptationField()
					cerr = pkt.SetAdaptationField(saf)
					if sp != spWas {
						srcChanged = diffAt(sp[:], spWas[:])
					}
				}
			}
		})
		if !okc {
			return
		}
		if srcChanged != "" {
			// the packet the field is copied FROM is only read, whether the copy is honoured or not
			c.Fail("source_untouched", "call_changed_memory_it_only_reads:"+op.Op, srcChanged, "unchanged")
			return
		}
		opName := op.Op
		if len(op.Op) > 4 && op.Op[:4] == "has_" {
			opName = fmt.Sprintf("%s=%t", op.Op, op.V)
		}
		c.Log("op %s -> err=%v honoured=%t", opName, cerr, honoured)
		if !honoured {
			if cerr == nil {
				c.Fail("refusal", "refusal_missing:"+opName+qual, "nil error", "an error (cannot be honoured)")
				return
			}
			if pkt != before {
				c.Fail("refusal_atomic", "refused_call_changed_packet:"+opName+qual, diffAt(pkt[:], before[:]), "188 bytes unchanged")
				return
			}
			continue
		}
		if cerr != nil {
			c.Fail("fits_never_fails", "call_that_fits_failed:"+opName+qual, cerr, "nil")
			return
		}
		// commit the model
		old := m.AFSpec
		m.AFSpec = next
		switch op.Op {
		case "has_pcr":
			if old.HasPCR != next.HasPCR {
				m.pcrKnown = false
			}
		case "has_opcr":
			if old.HasOPCR != next.HasOPCR {
				m.opcrKnown = false
			}
		case "has_splice":
			if old.HasSpl != next.HasSpl {
				m.splKnown = false
			}
		case "pcr":
			m.pcrKnown = true
		case "opcr":
			m.opcrKnown = true
		case "splice":
			m.splKnown = true
		case "copy":
			m.pcrKnown, m.opcrKnown, m.splKnown = true, true, true
		}
		if m.HasPCR && m.HasOPCR && m.HasSpl && m.HasPriv && m.HasExt {
			c.Probe("all_fields_present")
		}
		want, mask := m.serialise()
		for k := 0; k < 188; k++ {
			if mask[k] && pkt[k] != want[k] {
				region := "adaptation_field"
				switch {
				case k < 4:
					region = "header"
				case k == 4:
					region = "af_length"
				case k >= 5+m.L:
					region = "payload"
				case k >= 5+m.content():
					region = "stuffing"
				}
				c.Fail("serialisation", "bytes_differ:"+opName+qual+":"+region, fmt.Sprintf("byte %d = %#02x; af=%x", k, pkt[k], pkt[4:5+m.L]), fmt.Sprintf("%#02x; af=%x", want[k], want[4:5+m.L]))
				return
			}
		}
		if !c03Getters(c, &pkt, af, m, opName+qual) {
			return
		}
	}
}

func diffAt(a, b []byte) string {
	for i := range a {
		if a[i] != b[i] {
			return fmt.Sprintf("byte %d changed %#02x -> %#02x", i, b[i], a[i])
		}
	}
	return "no change"
}

// c03Getters checks every getter in both API styles against the model.
func c03Getters(c *core.Ctx, pkt *packet.Packet, af *packet.AdaptationField, m *afModel, after string) bool {
	fail := func(what string, got, want interface{}) bool {
		c.Fail("getter", "getter:"+what+":after:"+after, got, want)
		return false
	}
	ok := true
	okc := c.Call("AdaptationField getters", func() {
		if af.Length() != m.L || int(adaptationfield.Length(pkt)) != m.L {
			ok = fail("Length", af.Length(), m.L)
			return
		}
		type bg struct {
			name string
			f    func() (bool, error)
			g    func(*packet.Packet) bool
			want bool
		}
		for _, x := range []bg{
			{"Discontinuity", af.Discontinuity, adaptationfield.IsDiscontinuous, m.Disc},
			{"RandomAccess", af.RandomAccess, adaptationfield.IsRandomAccess, m.RAI},
			{"ElementaryStreamPriority", af.ElementaryStreamPriority, adaptationfield.IsESHigherPriority, m.ESPI},
			{"HasPCR", af.HasPCR, adaptationfield.HasPCR, m.HasPCR},
			{"HasOPCR", af.HasOPCR, adaptationfield.HasOPCR, m.HasOPCR},
			{"HasSplicingPoint", af.HasSplicingPoint, adaptationfield.HasSplicingPoint, m.HasSpl},
			{"HasTransportPrivateData", af.HasTransportPrivateData, adaptationfield.HasTransportPrivateData, m.HasPriv},
			{"HasAdaptationFieldExtension", af.HasAdaptationFieldExtension, adaptationfield.HasAdaptationFieldExtension, m.HasExt},
		} {
			v, err := x.f()
			if err != nil || v != x.want || x.g(pkt) != x.want {
				ok = fail(x.name, fmt.Sprint(v, err, x.g(pkt)), x.want)
				return
			}
		}
		// PCR / OPCR
		for _, t := range []struct {
			name    string
			present bool
			known   bool
			val     uint64
			get     func() (uint64, error)
			fget    func(*packet.Packet) ([]byte, error)
		}{
			{"PCR", m.HasPCR, m.pcrKnown, m.PCR, af.PCR, adaptationfield.PCR},
			{"OPCR", m.HasOPCR, m.opcrKnown, m.OPCR, af.OPCR, adaptationfield.OPCR},
		} {
			v, err := t.get()
			fb, ferr := t.fget(pkt)
			if !t.present {
				if err == nil || ferr == nil {
					ok = fail(t.name+"_absent", fmt.Sprint(v, err, ferr), "an error")
					return
				}
				continue
			}
			if err != nil || ferr != nil {
				ok = fail(t.name, fmt.Sprint(err, ferr), "a value")
				return
			}
			if t.known && (v != t.val || !bytes.Equal(fb, pcrBytes(t.val))) {
				ok = fail(t.name, fmt.Sprintf("%d / %x", v, fb), fmt.Sprintf("%d / %x", t.val, pcrBytes(t.val)))
				return
			}
		}
		// splice countdown
		{
			v, err := af.SpliceCountdown()
			fv, ferr := adaptationfield.SpliceCountdown(pkt)
			if !m.HasSpl {
				if err == nil || ferr == nil {
					ok = fail("SpliceCountdown_absent", fmt.Sprint(v, err, ferr), "an error")
					return
				}
			} else {
				if err != nil || ferr != nil {
					ok = fail("SpliceCountdown", fmt.Sprint(err, ferr), "a value")
					return
				}
				if m.splKnown && (v != int(int8(m.Splice)) || int(fv) != m.Splice&0xff) {
					ok = fail("SpliceCountdown", fmt.Sprint(v, fv), m.Splice)
					return
				}
			}
		}
		// private data
		{
			v, err := af.TransportPrivateData()
			fv, ferr := adaptationfield.TransportPrivateData(pkt)
			if !m.HasPriv {
				if err == nil || ferr == nil {
					ok = fail("TransportPrivateData_absent", fmt.Sprint(len(v), err, ferr), "an error")
					return
				}
			} else {
				withLen := append([]byte{byte(len(m.Priv))}, m.Priv...)
				if err != nil || !(bytes.Equal(v, m.Priv) || bytes.Equal(v, withLen)) {
					ok = fail("TransportPrivateData", fmt.Sprintf("%x %v", v, err), fmt.Sprintf("%x", []byte(m.Priv)))
					return
				}
				if ferr != nil || !bytes.Equal(fv, m.Priv) {
					ok = fail("adaptationfield.TransportPrivateData", fmt.Sprintf("%x %v", fv, ferr), fmt.Sprintf("%x", []byte(m.Priv)))
					return
				}
			}
			// the EBP accessor is the private data of a non-empty adaptation field
			ev, eerr := adaptationfield.EncoderBoundaryPoint(pkt)
			if m.HasPriv {
				if eerr != nil || !bytes.Equal(ev, m.Priv) {
					ok = fail("adaptationfield.EncoderBoundaryPoint", fmt.Sprintf("%x %v", ev, eerr), fmt.Sprintf("%x", []byte(m.Priv)))
					return
				}
			} else if eerr == nil {
				ok = fail("adaptationfield.EncoderBoundaryPoint_absent", fmt.Sprintf("%x", ev), "an error")
				return
			}
		}
		// extension
		{
			v, err := af.AdaptationFieldExtension()
			if !m.HasExt {
				if err == nil {
					ok = fail("AdaptationFieldExtension_absent", fmt.Sprintf("%x", v), "an error")
					return
				}
			} else {
				withLen := append([]byte{byte(len(m.Ext))}, m.Ext...)
				if err != nil || !(bytes.Equal(v, m.Ext) || bytes.Equal(v, withLen)) {
					ok = fail("AdaptationFieldExtension", fmt.Sprintf("%x %v", v, err), fmt.Sprintf("%x", []byte(m.Ext)))
					return
				}
			}
		}
		// two packets read alternately (PCR interval measurement, comparing two packets): what a
		// getter returned for this packet is still this packet's value after the same getter has
		// been used on another packet - nothing was set in between
		{
			q := c03Other()
			type heldRes struct {
				name string
				res  []byte
				was  []byte
			}
			var held []heldRes
			hold := func(name string, b []byte, err error) {
				if err == nil {
					held = append(held, heldRes{name, b, append([]byte(nil), b...)})
				}
			}
			b, err := adaptationfield.PCR(pkt)
			hold("adaptationfield.PCR", b, err)
			b, err = adaptationfield.OPCR(pkt)
			hold("adaptationfield.OPCR", b, err)
			b, err = adaptationfield.TransportPrivateData(pkt)
			hold("adaptationfield.TransportPrivateData", b, err)
			b, err = adaptationfield.EncoderBoundaryPoint(pkt)
			hold("adaptationfield.EncoderBoundaryPoint", b, err)
			b, err = af.TransportPrivateData()
			hold("TransportPrivateData", b, err)
			b, err = af.AdaptationFieldExtension()
			hold("AdaptationFieldExtension", b, err)
			adaptationfield.PCR(q)
			adaptationfield.OPCR(q)
			adaptationfield.TransportPrivateData(q)
			adaptationfield.EncoderBoundaryPoint(q)
			adaptationfield.SpliceCountdown(q)
			if qa, qerr := q.AdaptationField(); qerr == nil && qa != nil {
				qa.PCR()
				qa.OPCR()
				qa.TransportPrivateData()
				qa.AdaptationFieldExtension()
				qa.SpliceCountdown()
			}
			for _, h := range held {
				if !bytes.Equal(h.res, h.was) {
					c.Fail("getter", "getter:"+h.name+":result_changed_by_reading_another_packet", fmt.Sprintf("%x", h.res), fmt.Sprintf("%x", h.was))
					ok = false
					return
				}
			}
			if len(held) > 0 {
				c.Probe("results_held_while_another_packet_is_read")
			}
		}
	})
	return okc && ok
}

// c03Other is a second, unrelated packet with every optional adaptation field present.
func c03Other() *packet.Packet {
	var q packet.Packet
	for i := range q {
		q[i] = byte(0xA0 + i%7)
	}
	copy(q[:], []byte{0x47, 0x01, 0x23, 0x35, 60, 0x1F,
		0x11, 0x12, 0x13, 0x14, 0xFE, 0x15, // PCR
		0x21, 0x22, 0x23, 0x24, 0xFE, 0x25, // OPCR
		0x05,             // splice countdown
		3, 'X', 'Y', 'Z', // private data
		2, 0x1F, 0x77, // extension
	})
	for i := 26; i < 65; i++ {
		q[i] = 0xFF
	}
	return &q
}

func (c03) Shrink(script interface{}) []interface{} {
	s := script.(*C03Script)
	var out []interface{}
	cp := func() *C03Script {
		n := *s
		n.Ops = append([]C03Op(nil), s.Ops...)
		return &n
	}
	for _, keep := range core.DropChunks(len(s.Ops)) {
		n := cp()
		n.Ops = nil
		for _, i := range keep {
			n.Ops = append(n.Ops, s.Ops[i])
		}
		out = append(out, n)
	}
	// simplify the initial field
	if s.Init.content() > 1 || s.Init.Disc || s.Init.RAI || s.Init.ESPI {
		n := cp()
		n.Init = AFSpec{L: s.Init.L}
		out = append(out, n)
		for _, f := range []func(*AFSpec){
			func(a *AFSpec) { a.HasPCR, a.PCR = false, 0 },
			func(a *AFSpec) { a.HasOPCR, a.OPCR = false, 0 },
			func(a *AFSpec) { a.HasSpl, a.Splice = false, 0 },
			func(a *AFSpec) { a.HasPriv, a.Priv = false, nil },
			func(a *AFSpec) { a.HasExt, a.Ext = false, nil },
			func(a *AFSpec) { a.Disc, a.RAI, a.ESPI = false, false, false },
			func(a *AFSpec) {
				if len(a.Priv) > 1 {
					a.Priv = a.Priv[:1]
				}
			},
			func(a *AFSpec) {
				if len(a.Ext) > 1 {
					a.Ext = a.Ext[:1]
				}
			},
		} {
			n := cp()
			f(&n.Init)
			out = append(out, n)
		}
	}
	for _, l := range []int{20, 8, s.Init.L - 1} {
		if l >= 1 && l < s.Init.L && s.Init.L != 183 {
			n := cp()
			n.Init.L = l
			out = append(out, n)
		}
	}
	if s.Salt != 0 {
		n := cp()
		n.Salt = 0
		out = append(out, n)
	}
	for i, o := range s.Ops {
		if len(s.Ops) > 200 {
			break
		}
		if len(o.Data) > 1 {
			n := cp()
			n.Ops[i].Data = o.Data[:len(o.Data)/2]
			out = append(out, n)
			n = cp()
			n.Ops[i].Data = o.Data[:len(o.Data)-1]
			out = append(out, n)
		}
		if o.U > 1 {
			n := cp()
			n.Ops[i].U = 1
			out = append(out, n)
		}
		if o.Src != nil && o.Src.content() > 1 {
			n := cp()
			src := AFSpec{L: o.Src.L}
			n.Ops[i].Src = &src
			out = append(out, n)
		}
	}
	return out
}
