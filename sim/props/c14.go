package props

import (
	"bytes"
	"fmt"
	"io"
	"strings"

	gots "github.com/Comcast/gots/v2"
	"github.com/Comcast/gots/v2/packet"
	"github.com/Comcast/gots/v2/psi"

	"verif/sim/core"
	"verif/sim/parties"
	"verif/sim/ref"
)

// C14 - PMT filtering as a relay stage:
// source -> packetiser -> mux -> reader -> demux -> real accumulator ->
// Packets() -> FilterPMTPacketsToPids -> re-mux -> reader -> real ReadPMT.

type C14Script struct {
	PMT      ref.PMTSpec `json:"pmt"`
	Pointer  int         `json:"pointer"`
	Trailing int         `json:"trailing"`
	In       Wire        `json:"in"`
	ViaAcc   bool        `json:"via_accumulator"`
	Keep     []int       `json:"keep"`
	Out      Wire        `json:"out"` // only Foreign, Picks, Salt, Reads, Default, CutAt are used
	Remove   []int       `json:"remove,omitempty"`
	// RemoveOwn k>0: the list handed to RemoveElementaryStreams is pmt.Pids()[k-1:], the PMT's
	// own answer (remove "everything it lists from the k-th on"), not a list in memory of its own
	RemoveOwn int `json:"remove_own_from,omitempty"`
}

type c14 struct{}

func init() { core.Register(c14{}) }

func (c14) ID() string       { return "C14" }
func (c14) New() interface{} { return &C14Script{} }
func (c14) Info() core.Info {
	return core.Info{
		Runs: map[string]int{"quick": 600000, "thorough": 40000000},
		Rule: "Each run sends one abstract PMT (pointer_field + section + 0xFF stuffing) through a scripted packetiser/multiplexer/fragmenting reader into the real accumulator, hands Packets() (or the raw packets) to FilterPMTPacketsToPids with a scripted PID request (subset/order/absent/duplicated/PAT PID/PMT PID/empty), compares the output packets with the reference serialisation of the restricted PMT (same pointer_field, original headers, correct section_length and CRC, 0xFF padding), checks the error contract and that the inputs are untouched, then re-multiplexes the output among foreign packets and reads it back with ReadPMT over a second scripted (fragmenting/failing) reader; RemoveElementaryStreams/Pids/PIDExists are checked on the decoded PMT (the list removed is the script's own or, 1 run in 6, a slice of the PMT's own Pids() result). Non-trivial = at least one reach probe fired. Added in waves 19-22: the request is a slice with spare capacity of a longer caller array; after the main call the caller edits the returned packets, repeats the identical request, filters another PMT (earlier results and the earlier error's text must be unchanged); another program's PMT carried on a PID this request names is filtered first; the payload is decoded a second time after RemoveElementaryStreams.",
		Real: []string{"psi.FilterPMTPacketsToPids", "packet.Header", "packet.Payload", "gots.ComputeCRC", "packet.Accumulator + psi.PmtAccumulatorDoneFunc", "psi.ReadPMT", "psi.NewPMT", "pmt.RemoveElementaryStreams/Pids/PIDExists"},
		Stub: []string{"PMT source + reference serialiser/CRC", "packetiser", "multiplexer", "SimReader (two legs)", "harness demux by PID"},
		Assumptions: []string{
			"elementary PIDs are distinct within a PMT",
			"when every requested PID that is not the PAT/PMT PID is absent but the request also names the PAT or PMT PID, the statement's two error clauses overlap: either (nil packets, error) or (zero-stream PMT, error) is accepted",
			"the re-read is skipped when the filtered PMT has no stream (that is C06's recorded finding about ReadPMT)",
			"any number of output packets is accepted as long as headers match the inputs index-wise and the concatenated payload is the expected section followed only by 0xFF",
		},
		RequiredProbes: []string{"pid_list_with_spare_capacity", "keep_none", "keep_some", "keep_all", "missing_some", "missing_all", "dup_requested", "pat_or_pmt_pid_requested", "multi_packet_in", "pointer_gt0", "af_in_header", "reread_ok", "empty_request", "remove_streams", "refused_call_before", "sibling_call_before", "section_plus_pointer_gt_1021", "requested_value_outside_pid_range", "remove_list_is_the_pmts_own_pid_list"},
	}
}

func (c14) Gen(r *core.Rand, tier string) interface{} {
	s := &C14Script{}
	s.PMT = genPMT(r, 30)
	s.Pointer = r.Pick(0, 0, 0, 1, 7, 60, r.Range(0, 150))
	s.Trailing = r.Pick(0, 0, 3, 50, 190)
	if r.Chance(1, 8) {
		// a section close to the 1021-byte limit behind a long pointer_field filler
		inUse := map[int]bool{}
		for _, e := range s.PMT.Streams {
			inUse[e.PID] = true
		}
		next := 0x400
		for s.PMT.SectionLength() < 900 {
			for inUse[next] {
				next++
			}
			inUse[next] = true
			e := ref.ES{Type: streamTypes[r.Intn(len(streamTypes))], PID: next, Descs: []ref.Desc{{Tag: 0x45, Body: r.Bytes(r.Range(20, 60))}}}
			s.PMT.Streams = append(s.PMT.Streams, e)
		}
		for s.PMT.SectionLength() > 1021 {
			s.PMT.Streams = s.PMT.Streams[:len(s.PMT.Streams)-1]
		}
		s.Pointer = r.Pick(23, 60, 150, 254, 255)
	}
	plen := 1 + s.Pointer + len(s.PMT.Section()) + s.Trailing
	pid := r.Pick(0x20, 0x64, 0x40, 0xFFF, 0x1100, r.Range(0x40, 0xFFF))
	s.In = genWire(r, plen, pid)
	s.In.CutAt = 0
	// leg 1 is read by the harness demux: fragmentation only, no injected errors
	var clean []parties.ReadOp
	for _, o := range s.In.Reads {
		if o.Kind != "err" && o.Kind != "hard_err" {
			clean = append(clean, o)
		}
	}
	s.In.Reads = clean
	s.ViaAcc = r.Chance(2, 3)
	// the request
	n := len(s.PMT.Streams)
	switch r.Intn(8) {
	case 0: // empty
	case 1: // everything, in order
		for _, e := range s.PMT.Streams {
			s.Keep = append(s.Keep, e.PID)
		}
	case 2: // only absent
		for i := r.Range(1, 3); i > 0; i-- {
			s.Keep = append(s.Keep, 0x1F00+i)
		}
	default:
		for _, i := range r.Perm(n) {
			if r.Bool() {
				s.Keep = append(s.Keep, s.PMT.Streams[i].PID)
			}
		}
		if r.Chance(1, 3) {
			s.Keep = append(s.Keep, 0x1F00+r.Intn(9))
		}
		if r.Chance(1, 4) && len(s.Keep) > 0 {
			s.Keep = append(s.Keep, s.Keep[r.Intn(len(s.Keep))])
		}
		if r.Chance(1, 4) {
			s.Keep = append(s.Keep, r.Pick(0, pid))
		}
		if r.Chance(1, 4) && n > 0 {
			// a requested value outside the 13-bit PID range whose low 13 bits equal a stream's PID:
			// it names no stream of the PMT
			p := s.PMT.Streams[r.Intn(n)].PID
			s.Keep = append(s.Keep, r.Pick(p|0xE000, p+8192, p+65536, -p-1, p-8192))
		}
		if r.Chance(1, 5) {
			p := r.Perm(len(s.Keep))
			k2 := make([]int, len(s.Keep))
			for i, j := range p {
				k2[i] = s.Keep[j]
			}
			s.Keep = k2
		}
	}
	s.Out = Wire{Salt: r.Intn(1000), Foreign: r.Pick(0, 0, 2, 9)}
	for i := r.Range(0, s.Out.Foreign+6); i > 0; i-- {
		s.Out.Picks = append(s.Out.Picks, r.Intn(4))
	}
	style := r.PickS("full", "frag", "one", "mixed")
	if style == "one" {
		s.Out.Default = "one"
	} else {
		s.Out.Reads = parties.GenReadOps(r, r.Range(1, 20), style, r.Chance(1, 10))
	}
	for _, i := range r.Perm(n) {
		if r.Chance(1, 3) {
			s.Remove = append(s.Remove, s.PMT.Streams[i].PID)
		}
	}
	if r.Chance(1, 4) {
		s.Remove = append(s.Remove, 0x1F55)
	}
	if n > 0 && r.Chance(1, 6) {
		s.RemoveOwn = 1 + r.Pick(0, 0, 1, 1, n-1, r.Intn(n))
	}
	return s
}

func (c14) SweepSize(string) int              { return 0 }
func (c14) SweepCase(string, int) interface{} { return nil }
func (c14) Size(script interface{}) int {
	s := script.(*C14Script)
	n := len(s.PMT.Streams)*3 + len(s.PMT.ProgDescs) + s.Pointer/8 + s.Trailing/16 + len(s.Keep) + len(s.Remove)
	for _, e := range s.PMT.Streams {
		n += len(e.Descs)
	}
	return n + len(s.In.Carrier.Sizes) + s.In.Foreign + len(s.In.Reads) + len(s.In.Picks) + s.Out.Foreign + len(s.Out.Reads) + len(s.Out.Picks)
}

// refPayload extracts the payload of a packet by the ISO rules (harness-side).
func refPayload(p *[188]byte) []byte {
	switch p[3] & 0x30 {
	case 0x10:
		return p[4:]
	case 0x30:
		start := 5 + int(p[4])
		if start > 188 {
			return nil
		}
		return p[start:]
	}
	return nil
}

func contains(xs []int, x int) bool {
	for _, y := range xs {
		if y == x {
			return true
		}
	}
	return false
}

func (c14) Exec(script interface{}, c *core.Ctx) {
	s := script.(*C14Script)
	ptr := s.Pointer
	if ptr < 0 {
		ptr = 0
	}
	if ptr > 255 {
		ptr = 255
	}
	sec := s.PMT.Section()
	payload := ref.Payload(ptr, [][]byte{sec}, s.Trailing)
	pmtPid := s.In.Carrier.PID
	c.Log("c14 streams=%d ptr=%d trailing=%d keep=%v via_acc=%t", len(s.PMT.Streams), ptr, s.Trailing, s.Keep, s.ViaAcc)
	c.Log("section %x", sec)
	if ptr > 0 {
		c.Probe("pointer_gt0")
	}
	// --- leg 1: wire -> reader -> demux -> accumulator
	w := buildWire(s.In, payload, c)
	c.Unit("packets_on_wire", int64(len(w.stream)/188))
	sr := parties.NewSimReader(w.stream, s.In.Reads, c)
	sr.DefaultKind = s.In.Default
	var in []*packet.Packet
	acc := packet.NewAccumulator(psi.PmtAccumulatorDoneFunc)
	accDone := false
	for {
		var pk packet.Packet
		if _, err := io.ReadFull(sr, pk[:]); err != nil {
			break
		}
		if int(pk[1]&0x1f)<<8|int(pk[2]) != pmtPid {
			continue
		}
		if s.ViaAcc {
			var err error
			if !c.Call("Accumulator.WritePacket", func() { _, err = acc.WritePacket(&pk) }) {
				return
			}
			if err == gots.ErrAccumulatorDone {
				accDone = true
				break
			}
			if err != nil {
				c.Fail("relay_input", "accumulator_refused_pmt_packet", err, nil)
				return
			}
		} else {
			cp := pk
			in = append(in, &cp)
		}
	}
	if s.ViaAcc {
		if !accDone {
			c.Fail("relay_input", "accumulator_never_completed", "not done", "done")
			return
		}
		if !c.Call("Accumulator.Packets", func() { in = acc.Packets() }) {
			return
		}
	}
	if len(in) == 0 {
		c.Fail("relay_input", "no_input_packets", 0, ">=1")
		return
	}
	if len(in) > 1 {
		c.Probe("multi_packet_in")
	}
	snapshot := make([]packet.Packet, len(in))
	for i, p := range in {
		snapshot[i] = *p
		if p[3]&0x20 != 0 {
			c.Probe("af_in_header")
		}
	}
	// --- the request, classified from the abstract PMT
	var present, missing []int
	ignored := false
	for _, p := range s.Keep {
		inPMT := false
		for _, e := range s.PMT.Streams {
			if e.PID == p {
				inPMT = true
			}
		}
		switch {
		case inPMT:
			present = append(present, p)
		case p == 0 || p == pmtPid:
			ignored = true
		default:
			missing = append(missing, p)
		}
	}
	seen := map[int]bool{}
	for _, p := range s.Keep {
		if seen[p] {
			c.Probe("dup_requested")
		}
		seen[p] = true
	}
	if ignored {
		c.Probe("pat_or_pmt_pid_requested")
	}
	for _, p := range s.Keep {
		if p < 0 || p > 0x1FFF {
			c.Probe("requested_value_outside_pid_range")
		}
	}
	want := s.PMT.Restrict(s.Keep)
	switch {
	case len(s.Keep) == 0:
		c.Probe("empty_request")
	case len(want.Streams) == 0:
		c.Probe("keep_none")
	case len(want.Streams) == len(s.PMT.Streams):
		c.Probe("keep_all")
	default:
		c.Probe("keep_some")
	}

	if ptr+len(sec)-3 > 1021 {
		c.Probe("section_plus_pointer_gt_1021")
	}
	// a call on a sibling table first: same PID, same first 8 section bytes (table id, length,
	// program number, version, section numbers), other elementary PIDs - nothing the library
	// remembers about it may be used for the call under test
	if s.Out.Salt%3 == 0 && len(s.PMT.Streams) > 0 {
		sib := s.PMT
		sib.Streams = append([]ref.ES(nil), s.PMT.Streams...)
		var sibPids []int
		for i := range sib.Streams {
			sib.Streams[i].PID = (sib.Streams[i].PID + 0x333) & 0x1fff
			sibPids = append(sibPids, sib.Streams[i].PID)
		}
		sp := parties.Packetise(ref.Payload(ptr, [][]byte{sib.Section()}, 0), parties.Carrier{PID: pmtPid})
		var sps []*packet.Packet
		for i := range sp {
			p := packet.Packet(sp[i])
			sps = append(sps, &p)
		}
		if !c.Call("psi.FilterPMTPacketsToPids(sibling)", func() { psi.FilterPMTPacketsToPids(sps, sibPids) }) {
			return
		}
		c.Probe("sibling_call_before")
	}
	// a refused call on another PMT first: nothing of it may leak into the call under test
	if s.Out.Salt%2 == 0 {
		other := ref.PMTSpec{Program: 9, Version: 1, CurrentNext: true, PCRPID: 0x51, Streams: []ref.ES{{Type: 0x02, PID: 0x51}, {Type: 0x03, PID: 0x52, Descs: []ref.Desc{{Tag: 10, Body: []byte("deu\x00")}}}}}
		op := parties.Packetise(ref.Payload(0, [][]byte{other.Section()}, 0), parties.Carrier{PID: pmtPid, Styles: []string{"ff"}})
		var ops []*packet.Packet
		for i := range op {
			p := packet.Packet(op[i])
			ops = append(ops, &p)
		}
		var o2 []*packet.Packet
		var e2 error
		if !c.Call("psi.FilterPMTPacketsToPids(refused)", func() { o2, e2 = psi.FilterPMTPacketsToPids(ops, []int{0x1F77}) }) {
			return
		}
		if o2 != nil || e2 == nil {
			c.Fail("error_contract", "packets_though_none_present", len(o2), "nil + error")
			return
		}
		c.Probe("refused_call_before")
	}
	// a call on the PMT of ANOTHER program first, carried on a PID that the request under test
	// names although this PMT does not have it (one wanted-PID list for a whole multiplex): that
	// PID was a PMT PID a moment ago, here it is simply missing
	for _, x := range missing {
		if x > 0x1F && x < 0x1FFF && x != pmtPid && s.Out.Salt%5 < 2 {
			prog := ref.PMTSpec{Program: 7, Version: 3, CurrentNext: true, PCRPID: 0x61, Streams: []ref.ES{{Type: 0x1B, PID: 0x61}, {Type: 0x0F, PID: 0x62}}}
			pp := parties.Packetise(ref.Payload(0, [][]byte{prog.Section()}, 0), parties.Carrier{PID: x, Styles: []string{"ff"}})
			var pps []*packet.Packet
			for i := range pp {
				q := packet.Packet(pp[i])
				pps = append(pps, &q)
			}
			if !c.Call("psi.FilterPMTPacketsToPids(another program's PMT on a PID this request names)", func() { psi.FilterPMTPacketsToPids(pps, []int{0x61}) }) {
				return
			}
			c.Probe("missing_pid_was_the_previous_calls_pmt_pid")
			break
		}
	}
	// the request is a slice of a longer array of the caller's (spare capacity behind it,
	// filled with values of the caller's own): the call has no business writing there
	spare := []int{0, 1, 3}[(s.Out.Salt/3)%3]
	backing := make([]int, len(s.Keep)+spare)
	copy(backing, s.Keep)
	for i := len(s.Keep); i < len(backing); i++ {
		backing[i] = -7001 - i
	}
	keep := backing[:len(s.Keep)]
	if spare > 0 && len(s.Keep) > 0 {
		c.Probe("pid_list_with_spare_capacity")
	}
	var out []*packet.Packet
	var ferr error
	if !c.Call("psi.FilterPMTPacketsToPids", func() { out, ferr = psi.FilterPMTPacketsToPids(in, keep) }) {
		return
	}
	c.Log("filter -> %d packets err=%v", len(out), ferr)
	for i, p := range in {
		if *p != snapshot[i] {
			c.Fail("input_untouched", "filter_modified_input_packet", i, "unchanged")
			return
		}
	}
	for i := range keep {
		if keep[i] != s.Keep[i] {
			c.Fail("input_untouched", "filter_modified_pid_list", keep, s.Keep)
			return
		}
	}
	for i := len(s.Keep); i < len(backing); i++ {
		if backing[i] != -7001-i {
			c.Fail("input_untouched", "filter_wrote_behind_the_pid_list", backing[i], -7001-i)
			return
		}
	}
	// error contract
	if len(s.Keep) == 0 {
		if ferr != nil || len(out) != len(in) {
			c.Fail("empty_request", "empty_request_not_identity", fmt.Sprint(len(out), ferr), len(in))
			return
		}
		for i := range out {
			if out[i] == nil || *out[i] != snapshot[i] {
				c.Fail("empty_request", "empty_request_not_identity", i, "input packet")
				return
			}
		}
		goto removal
	}
	switch {
	case len(missing) == 0:
		if ferr != nil {
			c.Fail("error_contract", "error_though_all_present", ferr, nil)
			return
		}
	case len(present) > 0:
		c.Probe("missing_some")
		if ferr == nil {
			c.Fail("error_contract", "no_error_though_some_missing", nil, missing)
			return
		}
		if out == nil {
			c.Fail("error_contract", "no_packets_though_some_present", "nil", "packets")
			return
		}
	default:
		c.Probe("missing_all")
		if ferr == nil {
			c.Fail("error_contract", "no_error_though_all_missing", nil, missing)
			return
		}
		if out != nil && !ignored {
			c.Fail("error_contract", "packets_though_none_present", len(out), "nil")
			return
		}
	}
	if ferr != nil {
		for _, m := range missing {
			if !strings.Contains(ferr.Error(), fmt.Sprint(m)) {
				c.Fail("error_contract", "error_does_not_name_missing_pid", ferr.Error(), m)
				return
			}
		}
	}
	if out == nil {
		goto removal
	}
	// --- output packets against the reference serialisation
	{
		wantSec := want.Section()
		wantPay := ref.Payload(ptr, [][]byte{wantSec}, 0)
		if len(out) > len(in) || len(out) == 0 {
			c.Fail("output_packets", "output_packet_count", len(out), fmt.Sprintf("1..%d", len(in)))
			return
		}
		if len(out) < len(in) {
			c.Probe("fewer_packets_out")
		}
		var got []byte
		for i, p := range out {
			if p == nil {
				c.Fail("output_packets", "nil_output_packet", i, "packet")
				return
			}
			hl := 4
			if snapshot[i][3]&0x20 != 0 {
				hl = 5 + int(snapshot[i][4])
			}
			if !bytes.Equal(p[:hl], snapshot[i][:hl]) {
				c.Fail("original_headers", "output_header_differs_from_input", fmt.Sprintf("%x", p[:hl]), fmt.Sprintf("%x", snapshot[i][:hl]))
				return
			}
			got = append(got, p[hl:]...)
		}
		if len(got) < len(wantPay) || !bytes.Equal(got[:len(wantPay)], wantPay) {
			// classify for the signature
			sig := "payload_differs"
			switch {
			case len(got) >= 1+ptr && !bytes.Equal(got[:1+ptr], wantPay[:1+ptr]):
				sig = "pointer_field_differs"
			case len(got) >= 4+ptr && (got[2+ptr] != wantPay[2+ptr] || got[3+ptr] != wantPay[3+ptr]):
				sig = "section_length_differs"
			case len(got) >= len(wantPay) && bytes.Equal(got[:len(wantPay)-4], wantPay[:len(wantPay)-4]):
				sig = "crc_differs"
			}
			c.Fail("output_section", "filter:"+sig, fmt.Sprintf("%x", trimFF(got)), fmt.Sprintf("%x", wantPay))
			return
		}
		for _, b := range got[len(wantPay):] {
			if b != 0xFF {
				c.Fail("output_padding", "filter:padding_not_ff", fmt.Sprintf("%#x", b), "0xff")
				return
			}
		}
		if ref.CRC32(wantSec) != 0 {
			c.Fail("harness", "harness:reference_crc_broken", ref.CRC32(wantSec), 0)
			return
		}
	}
	// --- the result is the caller's: a repeated call does not hand back what the caller
	// meanwhile did to the first result, and a later call leaves earlier results alone
	{
		outSnap := make([]packet.Packet, len(out))
		for i, p := range out {
			outSnap[i] = *p
		}
		shared := false
		for _, p := range out {
			for _, q := range in {
				if p == q {
					shared = true // handing an input packet back as it is modifies nothing
				}
			}
		}
		var out2 []*packet.Packet
		if !shared {
			for _, p := range out {
				p[3] = p[3]&0xF0 | (p[3]+5)&0x0F // the caller re-stamps the continuity counter
				p[187] ^= 0x5A
			}
			if !c.Call("psi.FilterPMTPacketsToPids(same request again, first result edited)", func() { out2, _ = psi.FilterPMTPacketsToPids(in, keep) }) {
				return
			}
			if len(out2) != len(outSnap) {
				c.Fail("output_packets", "filter:repeated_call_other_packet_count", len(out2), len(outSnap))
				return
			}
			for i, p := range out2 {
				if p == nil || *p != outSnap[i] {
					c.Fail("output_section", "filter:repeated_call_differs_from_first_result", i, "the packet the first call returned")
					return
				}
			}
			for i, p := range out {
				*p = outSnap[i]
			}
			c.Probe("same_request_again_after_editing_the_result")
		}
		other := ref.PMTSpec{Program: 9, Version: 1, CurrentNext: true, PCRPID: 0x51, Streams: []ref.ES{{Type: 0x02, PID: 0x51}, {Type: 0x03, PID: 0x52, Descs: []ref.Desc{{Tag: 10, Body: []byte("deu\x00")}}}}}
		op := parties.Packetise(ref.Payload(0, [][]byte{other.Section()}, 0), parties.Carrier{PID: pmtPid, Styles: []string{"ff"}})
		var ops []*packet.Packet
		for i := range op {
			p := packet.Packet(op[i])
			ops = append(ops, &p)
		}
		errText := ""
		if ferr != nil {
			errText = ferr.Error()
		}
		if !c.Call("psi.FilterPMTPacketsToPids(later call, earlier results still held)", func() {
			psi.FilterPMTPacketsToPids(ops, []int{0x51})
			psi.FilterPMTPacketsToPids(ops, []int{0x1F70, 0x51, 0x1F71}) // (one with missing PIDs of its own)
			psi.FilterPMTPacketsToPids(ops, []int{0x1F72})
		}) {
			return
		}
		if ferr != nil && ferr.Error() != errText {
			c.Fail("error_contract", "error_text_changed_by_a_later_call", ferr.Error(), errText)
			return
		}
		for i := range outSnap {
			if *out[i] != outSnap[i] || (out2 != nil && *out2[i] != outSnap[i]) {
				c.Fail("output_packets", "filter:result_changed_by_a_later_call", i, "the packet as returned")
				return
			}
		}
		c.Probe("result_held_across_a_later_call")
	}
	// --- leg 2: re-mux and read back
	if len(want.Streams) > 0 {
		var q []parties.Pkt
		for _, p := range out {
			q = append(q, parties.Pkt(*p))
		}
		ow := s.Out
		ow.Carrier.PID = -1
		seq, from := parties.Mux([][]parties.Pkt{q, foreignPkts(s.Out, nil)}, s.Out.Picks)
		stream := parties.Flatten(seq)
		_ = from
		sr2 := parties.NewSimReader(stream, s.Out.Reads, c)
		sr2.DefaultKind = s.Out.Default
		var pm psi.PMT
		var err error
		if !c.Call("psi.ReadPMT", func() { pm, err = psi.ReadPMT(sr2, pmtPid) }) {
			return
		}
		if parties.IsReaderFault(err) {
			if sr2.FirstErr == nil {
				c.Fail("reader_error", "reread:error_from_nowhere", err, nil)
				return
			}
		} else if err != nil {
			c.Fail("reread", "reread:readpmt_error", err, "the restricted PMT")
			return
		} else {
			if d := comparePMT(c, pm, want); d != "" {
				if d != "panic" {
					c.Fail("reread", "reread:"+clauseOf(d), d, "the restricted PMT")
				}
				return
			}
			c.Probe("reread_ok")
		}
	}
removal:
	// --- RemoveElementaryStreams on the decoded PMT
	{
		var pm psi.PMT
		var err error
		if !c.Call("psi.NewPMT", func() { pm, err = psi.NewPMT(append([]byte(nil), payload...)) }) {
			return
		}
		if err != nil {
			c.Fail("remove", "remove:newpmt_error", err, nil)
			return
		}
		// query first (an implementation may cache what it answered), then remove, then query again
		okb := c.Call("pmt.PIDExists(before)", func() {
			for _, e := range s.PMT.Streams {
				if !pm.PIDExists(e.PID) {
					c.Fail("remove", "remove:pid_missing_before_removal", e.PID, "present")
				}
			}
			for _, p := range s.Remove {
				pm.PIDExists(p)
			}
			pm.Pids()
			pm.ElementaryStreams()
		})
		if !okb || c.Failed() {
			return
		}
		rm := append([]int(nil), s.Remove...)
		removeSpec := s.Remove
		if k := s.RemoveOwn - 1; k >= 0 && k < len(s.PMT.Streams) {
			var own []int
			if !c.Call("pmt.Pids", func() { own = pm.Pids() }) {
				return
			}
			if k < len(own) {
				rm = own[k:]
				removeSpec = nil
				for _, e := range s.PMT.Streams[k:] {
					removeSpec = append(removeSpec, e.PID)
				}
				c.Probe("remove_list_is_the_pmts_own_pid_list")
				c.Fault("caller_passes_library_owned_list")
			}
		}
		if !c.Call("pmt.RemoveElementaryStreams", func() { pm.RemoveElementaryStreams(rm) }) {
			return
		}
		if len(removeSpec) > 0 {
			c.Probe("remove_streams")
		}
		left := s.PMT
		left.Streams = nil
		for _, e := range s.PMT.Streams {
			if !contains(removeSpec, e.PID) {
				left.Streams = append(left.Streams, e)
			}
		}
		if d := comparePMT(c, pm, left); d != "" {
			if d != "panic" {
				c.Fail("remove", "remove:"+clauseOf(d), d, "the other streams, in order")
			}
			return
		}
		okq := c.Call("pmt.PIDExists", func() {
			for _, p := range removeSpec {
				if pm.PIDExists(p) {
					c.Fail("remove", "remove:pid_still_exists", p, "absent")
				}
			}
		})
		if !okq || c.Failed() {
			return
		}
		// the same payload decoded once more: removing streams from one decoded table is no
		// business of the next one, nor the other way round
		var pm2 psi.PMT
		if !c.Call("psi.NewPMT(same payload again)", func() { pm2, err = psi.NewPMT(append([]byte(nil), payload...)) }) {
			return
		}
		if err != nil {
			c.Fail("remove", "remove:newpmt_error_second_time", err, nil)
			return
		}
		if d := comparePMT(c, pm2, s.PMT); d != "" {
			if d != "panic" {
				c.Fail("remove", "remove:decoded_again_after_removal:"+clauseOf(d), d, "the whole PMT")
			}
			return
		}
		if len(s.PMT.Streams) > 0 {
			if !c.Call("pmt.RemoveElementaryStreams(second table)", func() { pm2.RemoveElementaryStreams([]int{s.PMT.Streams[0].PID}) }) {
				return
			}
		}
		if d := comparePMT(c, pm, left); d != "" {
			if d != "panic" {
				c.Fail("remove", "remove:first_table_changed_by_the_second:"+clauseOf(d), d, "the other streams, in order")
			}
			return
		}
		c.Probe("same_payload_decoded_again_after_removal")
	}
}

func trimFF(b []byte) []byte {
	for len(b) > 0 && b[len(b)-1] == 0xFF {
		b = b[:len(b)-1]
	}
	return b
}

func (c14) Shrink(script interface{}) []interface{} {
	s := script.(*C14Script)
	var out []interface{}
	for _, p := range shrinkPMT(s.PMT) {
		n := *s
		n.PMT = p
		out = append(out, &n)
	}
	if s.Pointer > 0 {
		n := *s
		n.Pointer = 0
		out = append(out, &n)
	}
	if s.Trailing > 0 {
		n := *s
		n.Trailing = 0
		out = append(out, &n)
	}
	if s.ViaAcc {
		n := *s
		n.ViaAcc = false
		out = append(out, &n)
	}
	for _, w := range shrinkWire(s.In) {
		n := *s
		n.In = w
		out = append(out, &n)
	}
	for _, w := range shrinkWire(s.Out) {
		n := *s
		n.Out = w
		out = append(out, &n)
	}
	for _, keep := range core.DropChunks(len(s.Keep)) {
		n := *s
		n.Keep = nil
		for _, i := range keep {
			n.Keep = append(n.Keep, s.Keep[i])
		}
		out = append(out, &n)
	}
	for _, keep := range core.DropChunks(len(s.Remove)) {
		n := *s
		n.Remove = nil
		n.RemoveOwn = 0
		for _, i := range keep {
			n.Remove = append(n.Remove, s.Remove[i])
		}
		out = append(out, &n)
	}
	return out
}
