package props

import (
	"bufio"
	"bytes"
	"fmt"
	"io"
	"sort"

	gots "github.com/Comcast/gots/v2"
	"github.com/Comcast/gots/v2/ebp"
	"github.com/Comcast/gots/v2/packet"
	"github.com/Comcast/gots/v2/packet/adaptationfield"
	"github.com/Comcast/gots/v2/pes"
	"github.com/Comcast/gots/v2/psi"
	"github.com/Comcast/gots/v2/scte35"

	"verif/sim/core"
	"verif/sim/parties"
	"verif/sim/ref"
)

// C05 - decoders are total: the whole receive pipeline over a simulated
// stored/transmitted stream with truncation, bit flips, length-field damage,
// packet loss/duplication/reordering, byte slips and reader faults.

type c05 struct{}

func init() { core.Register(c05{}) }

func (c05) ID() string       { return "C05" }
func (c05) New() interface{} { return &C05Script{} }
func (c05) Info() core.Info {
	return core.Info{
		Runs:     map[string]int{"quick": 60000, "thorough": 5000000},
		Isolated: true,
		Rule:     "Each run builds a well-formed multi-PID stream (PAT, multi-packet PMT with descriptors, PES starts with PTS/DTS, EBPs of both flavours in adaptation-field private data, splice_info_sections of all supported shapes incl. MID UPIDs, component lists and sub-segments, null packets; scripted packetisation and multiplex), applies 0..4 scripted faults (length/flag field of a message flipped / set to 0,1,max / +-k, uniform bit flips, message truncation, packet drop/dup/swap, header/adaptation-field bit flips, stream truncation at any byte, byte insert/delete, garbage prefix) and drives the damaged stream through the receive pipeline the way cli/parsefile.go does (Sync -> ReadPAT -> ReadPMT per program -> per-packet parsing) extended to every decoding entry point, the modifiers (re-stamper stage), the accumulators with the library predicates, the tracker and the writer adapter; every object returned without error is queried through all getters, printed and re-encoded. Every library call is guarded (no panic), journaled and watched (no hang, bounded heap growth); read-only calls must leave caller buffers untouched. Plus a complete sweep, for 4 fixed streams, of every single-bit flip of every marked length/flag field and of stream truncation at every byte offset. Non-trivial = at least one fault fired or reach probe hit. Added in waves 19-21: a decoded signal drops its first / all descriptors and every descriptor the caller still holds is queried again; PMT objects are queried for every PID 0..8191; directed payloads with two program map sections; reader faults may answer Temporary()==true.",
		Real:     []string{"packet (accessors, modifiers, Sync, accumulator, writer adapters)", "packet/adaptationfield", "psi (PAT, PMT, descriptors, filter, accessors)", "pes", "ebp", "scte35 (decoder, encoder for re-encoding, state)", "bufio/io (stdlib)"},
		Stub:     []string{"stream producer (reference serialisers; SCTE-35 sections come from the library's own encoder)", "packetiser/multiplexer", "channel (fault list)", "SimReader", "pipeline driver mirroring cli/parsefile.go (the CLI binary itself is not executed)"},
		Assumptions: []string{
			"decides totality on streams that are well-formed up to a few transport/storage faults, plus empty and truncated inputs; it does not sample arbitrary byte strings far from any well-formed stream",
			"bounded memory = the live heap stays below 1 GiB during every call (watchdog) and no single call allocates more than 1 GiB + 4096x the stream size cumulatively (runtime/metrics, exact to about 2 MiB); cumulative allocation that is merely quadratic (scte35.String) is not counted as a violation",
			"a call that makes no progress for 10 s is a hang (confirmed by replay in a fresh process)",
		},
		RequiredProbes: []string{"no_fault_positive_control", "section_truncated", "length_enlarged", "length_reduced", "misaligned_stream", "reached_pat", "reached_pmt", "reached_scte35", "reached_ebp", "reached_pes", "reached_filter", "reached_state", "reached_restamp", "reached_readfrom", "stress_long_unit", "directed_odd_but_consistent_sections"},
	}
}

func (c05) Gen(r *core.Rand, tier string) interface{} { return c05Gen(r) }

// ---------------------------------------------------------------------------
// sweep: for 4 fixed streams, every single-bit flip of every mark, and stream
// truncation at every byte.

var c05SweepBase = func() []*C05Script {
	var out []*C05Script
	for i := 0; i < 4; i++ {
		r := core.NewRand(uint64(0xC05C05 + i))
		s := c05Gen(r)
		s.Faults = nil
		s.Reads = nil
		out = append(out, s)
	}
	return out
}()

type c05SweepIdx struct {
	base  int
	fault C05Fault
}

var c05SweepList = func() []c05SweepIdx {
	var l []c05SweepIdx
	for b, s := range c05SweepBase {
		for mi := range s.Msgs {
			_, marks := msgBytes(&s.Msgs[mi])
			for k := range marks {
				for bit := 0; bit < 8; bit++ {
					l = append(l, c05SweepIdx{b, C05Fault{Layer: "msg", Msg: mi, Mark: k, Kind: "flip", Val: bit}})
				}
				for _, v := range []int{0, 1, 0xFF} {
					l = append(l, c05SweepIdx{b, C05Fault{Layer: "msg", Msg: mi, Mark: k, Kind: "set", Val: v}})
				}
			}
		}
		n := len(c05Build(s, nil).stream)
		for off := 0; off < n; off++ {
			l = append(l, c05SweepIdx{b, C05Fault{Layer: "stream", Mark: -1, Kind: "trunc", Off: off}})
		}
	}
	return l
}()

func (c05) SweepSize(tier string) int {
	if tier == "thorough" {
		return len(c05SweepList)
	}
	// quick: every 4th case (rotating with the seed is not possible here: keep it deterministic)
	return len(c05SweepList) / 4
}

func (c05) SweepCase(tier string, i int) interface{} {
	if tier != "thorough" {
		i *= 4
	}
	x := c05SweepList[i]
	s := *c05SweepBase[x.base]
	s.Faults = []C05Fault{x.fault}
	return &s
}

func (c05) Size(script interface{}) int {
	s := script.(*C05Script)
	n := len(s.Msgs)*4 + len(s.Faults)*3 + len(s.Reads) + len(s.Picks)
	for _, m := range s.Msgs {
		n += len(m.Carrier.Sizes)
		if m.PMT != nil {
			n += len(m.PMT.Streams)
		}
		if m.SCTE != nil {
			n += len(m.SCTE.Descs)
		}
	}
	return n
}

// ---------------------------------------------------------------------------
// building the damaged stream

type c05Built struct {
	stream  []byte
	msgs    [][]byte // damaged message payloads (for the direct parser calls)
	pmtPids []int
	sctePid int
}

func c05Build(s *C05Script, c *core.Ctx) c05Built {
	var res c05Built
	fault := func(k string) {
		if c != nil {
			c.Fault(k)
		}
	}
	probe := func(k string) {
		if c != nil {
			c.Probe(k)
		}
	}
	// queues per PID, in order of first appearance
	var order []int
	queues := map[int][]parties.Pkt{}
	for mi := range s.Msgs {
		m := &s.Msgs[mi]
		payload, marks := msgBytes(m)
		// message-layer faults
		for _, f := range s.Faults {
			if f.Layer != "msg" || f.Msg != mi || len(payload) == 0 {
				continue
			}
			off := f.Off
			kind := "uniform"
			if f.Mark >= 0 {
				if len(marks) == 0 {
					continue
				}
				mk := marks[f.Mark%len(marks)]
				off, kind = mk.off, mk.kind
			}
			if f.Kind == "trunc" {
				if off < len(payload) {
					payload = payload[:off]
					fault("msg_truncated")
					probe("section_truncated")
				}
				continue
			}
			if off >= len(payload) {
				continue
			}
			old := payload[off]
			switch f.Kind {
			case "flip":
				payload[off] ^= 1 << uint(f.Val&7)
			case "set":
				payload[off] = byte(f.Val)
			case "add":
				payload[off] = byte(int(payload[off]) + f.Val)
			}
			if payload[off] != old {
				fault("msg_" + f.Kind + ":" + kind)
				if payload[off] > old {
					probe("length_enlarged")
				} else {
					probe("length_reduced")
				}
			}
		}
		res.msgs = append(res.msgs, payload)
		var pk []parties.Pkt
		switch m.Kind {
		case "null":
			pk = []parties.Pkt{parties.NullPacket(m.Salt)}
		case "ebp":
			eb, _ := ebpBytes(m.EBP)
			// EBP-layer faults address the EBP bytes through Sub on a pkt fault; here the message
			// faults only touch the PES part. The EBP itself is damaged by "pkt flip" faults below.
			af := AFSpec{L: 0, RAI: true, HasPriv: true, Priv: eb}
			if m.EBP.WithPCR {
				af.HasPCR, af.PCR = true, uint64(m.Salt)*27000000+12345
			}
			af.L = af.content() + m.Salt%3
			if af.L > 182 {
				af.L = 182
			}
			if af.content() > af.L {
				af.Priv = af.Priv[:len(af.Priv)-(af.content()-af.L)]
			}
			p, _ := buildAFPacket(af, m.Salt)
			p[1] = 0x40 | byte(m.PID>>8)&0x1f
			p[2] = byte(m.PID)
			room := 188 - 5 - af.L
			for k := 0; k < room; k++ {
				if k < len(payload) {
					p[5+af.L+k] = payload[k]
				} else {
					p[5+af.L+k] = 0xFF
				}
			}
			pk = []parties.Pkt{parties.Pkt(p)}
		default:
			if len(payload) > 0 {
				car := m.Carrier
				car.PID = m.PID
				if m.Kind == "pes" && len(car.Styles) == 0 {
					car.Styles = []string{"af"}
				}
				pk = parties.Packetise(payload, car)
			}
		}
		if _, ok := queues[m.PID]; !ok {
			order = append(order, m.PID)
		}
		queues[m.PID] = append(queues[m.PID], pk...)
		if m.Kind == "pmt" {
			res.pmtPids = append(res.pmtPids, m.PID)
		}
		if m.Kind == "scte" {
			res.sctePid = m.PID
		}
	}
	var qs [][]parties.Pkt
	for _, pid := range order {
		qs = append(qs, queues[pid])
	}
	// the PAT and PMT lead (a receiver needs them first); the rest is multiplexed by the picks
	var lead, rest [][]parties.Pkt
	for i, pid := range order {
		isPSI := pid == 0
		for _, p := range res.pmtPids {
			isPSI = isPSI || pid == p
		}
		if isPSI {
			lead = append(lead, qs[i])
		} else {
			rest = append(rest, qs[i])
		}
	}
	seq, _ := parties.Mux(lead, nil)
	seq2, _ := parties.Mux(rest, s.Picks)
	seq = append(seq, seq2...)
	if len(seq) > 96 {
		seq = seq[:96]
	}
	// packet-layer faults
	for _, f := range s.Faults {
		if f.Layer != "pkt" || len(seq) == 0 {
			continue
		}
		i := f.Off % len(seq)
		switch f.Kind {
		case "drop":
			seq = append(seq[:i:i], seq[i+1:]...)
			fault("pkt_drop")
		case "dup":
			seq = append(seq[:i+1:i+1], seq[i:]...)
			fault("pkt_dup")
		case "swap":
			if i+1 < len(seq) {
				seq[i], seq[i+1] = seq[i+1], seq[i]
				fault("pkt_reorder")
			}
		case "flip":
			sub := f.Sub
			if sub < 0 {
				sub = 0
			}
			if sub > 187 {
				sub = 187
			}
			seq[i][sub] ^= 1 << uint(f.Val&7)
			k := "pkt_flip_body"
			switch {
			case sub == 0:
				k = "pkt_flip_sync"
			case sub <= 2:
				k = "pkt_flip_pid_flags"
			case sub == 3:
				k = "pkt_flip_afc_cc"
			case sub == 4:
				k = "pkt_flip_af_length"
			case sub == 5:
				k = "pkt_flip_af_flags"
			}
			fault(k)
		}
	}
	st := parties.Flatten(seq)
	// stream-layer faults
	for _, f := range s.Faults {
		if f.Layer != "stream" {
			continue
		}
		off := f.Off
		switch f.Kind {
		case "trunc":
			if off < len(st) {
				st = st[:off]
				fault("stream_truncated")
			}
		case "insert":
			if off <= len(st) {
				st = append(st[:off:off], append([]byte{byte(f.Val)}, st[off:]...)...)
				fault("stream_byte_inserted")
				probe("misaligned_stream")
			}
		case "delete":
			if off < len(st) {
				st = append(st[:off:off], st[off+1:]...)
				fault("stream_byte_deleted")
				probe("misaligned_stream")
			}
		case "garbage":
			n := f.Val
			if n < 1 {
				n = 1
			}
			if n > 400 {
				n = 400
			}
			g := make([]byte, n)
			for k := range g {
				g[k] = byte(k*37 + f.Off)
				if k%5 == 0 {
					g[k] = 0x47 // planted false sync bytes
				}
			}
			st = append(g, st...)
			fault("stream_garbage_prefix")
			if n%188 != 0 {
				probe("misaligned_stream")
			}
		case "flip":
			if off < len(st) {
				st[off] ^= 1 << uint(f.Val&7)
				fault("stream_bit_flip")
			}
		}
	}
	res.stream = st
	return res
}

// ---------------------------------------------------------------------------
// the driver

type c05Run struct {
	c      *core.Ctx
	limit  uint64 // allocation bound per call
	failed bool
}

// call = guarded library call + allocation bound.
func (d *c05Run) call(name string, f func()) bool {
	if d.c.Failed() {
		return false
	}
	a0 := core.HeapAllocs()
	ok := d.c.Call(name, f)
	if a1 := core.HeapAllocs(); a1-a0 > d.limit && ok {
		d.c.Fail("bounded_memory", "alloc:"+name, fmt.Sprintf("%d bytes allocated by one call", a1-a0), fmt.Sprintf("<= %d", d.limit))
		return false
	}
	d.c.Unit("library_calls", 1)
	if d.c.Faulted() {
		d.c.Unit("damaged:"+name, 1) // per entry point: calls made on a damaged stream
	}
	return ok
}

// ro = call of a read-only operation: the caller-supplied buffer must be untouched.
func (d *c05Run) ro(name string, buf []byte, f func()) bool {
	snap := append([]byte(nil), buf...)
	if !d.call(name, f) {
		return false
	}
	if !bytes.Equal(snap, buf) {
		d.c.Fail("inputs_untouched", "modified_input:"+name, "buffer changed", "unchanged")
		return false
	}
	return true
}

// c05Directed: splice_info_sections that are consistent in every length field but end their
// segmentation descriptor 0..3 bytes after the last mandatory field (one spare byte is half a
// sub-segment pair), for every segmentation type that has optional trailing fields and some
// that have not; and the same with the descriptor as the last / not the last of the loop.
func c05Directed(s *C05Script, c *core.Ctx) bool {
	c.Probe("directed_odd_but_consistent_sections")
	d := &c05Run{c: c, limit: 1 << 30}
	for _, typ := range []int{0x34, 0x36, 0x38, 0x3A, 0x30, 0x10, 0x00} {
		for tail := 0; tail <= 3; tail++ {
			seg := ref.SegDesc{Event: uint32(s.Stamp), Program: true, NotRestricted: true, Type: typ, SegNum: 1, SegExp: 2, Tail: make(core.Hex, tail)}
			for _, after := range []bool{false, true} {
				sec := ref.Section{Tier: 0xFFF, Cmd: ref.Cmd{Kind: "time", Time: ref.SpliceTime{Has: true, PTS: 90000}}, Items: []ref.SpliceItem{{Seg: &seg}}}
				if after {
					sec.Items = append(sec.Items, ref.SpliceItem{Foreign: core.Hex{0x00, 0x08, 'C', 'U', 'E', 'I', 0, 0, 0, 1}})
				}
				enc, _ := sec.Bytes()
				if !d.scte(append([]byte{0}, enc...), "directed") {
					return false
				}
			}
		}
	}
	// "Memory bounded by a small multiple of the input size": sections that are all length
	// fields - a PMT header followed by 0xFF up to section_length, so that every five bytes
	// read as a stream entry announcing 4095 bytes of descriptors that are not there.
	for _, n := range []int{200, 1021, 4093} {
		in := []byte{0x00, 0x02, 0xB0 | byte(n>>8), byte(n), 0x00, 0x01, 0xC1, 0x00, 0x00, 0xE1, 0x00, 0xF0, 0x00}
		for len(in) < 4+n {
			in = append(in, 0xFF)
		}
		in = tight(in)
		// (the allocation counter lags by up to a span per size class, about 2 MiB: the bound
		// has to stay clear of that)
		limit := uint64(4<<20 + 128*len(in))
		a0 := core.HeapAllocs()
		if !d.ro("psi.NewPMT(all length fields)", in, func() { psi.NewPMT(in) }) {
			return false
		}
		if a := core.HeapAllocs() - a0; a > limit {
			c.Fail("bounded_memory", "alloc_small_multiple:psi.NewPMT", fmt.Sprintf("%d bytes allocated for %d bytes of input (%.0fx)", a, len(in), float64(a)/float64(len(in))), "<= 128x input + 4 MiB")
			return false
		}
		pk := parties.Flatten(parties.Packetise(in, parties.Carrier{PID: 0x64}))
		a0 = core.HeapAllocs()
		if !d.call("psi.ReadPMT(all length fields)", func() { psi.ReadPMT(bytes.NewReader(pk), 0x64) }) {
			return false
		}
		if a := core.HeapAllocs() - a0; a > 2*limit {
			c.Fail("bounded_memory", "alloc_small_multiple:psi.ReadPMT", fmt.Sprintf("%d bytes allocated for %d bytes of input", a, len(pk)), "<= 256x input + 8 MiB")
			return false
		}
	}
	// A PMT unit that loses its continuation (the first packet of a multi-packet unit, scanned
	// past a pointer_field or a complete neighbour section), followed on the same PID by a
	// complete PMT whose first packet carries only a few payload bytes: whatever a stream
	// reader remembers about the abandoned unit must not be applied to the new one.
	pm := ref.PMTSpec{Program: 1, Version: 2, CurrentNext: true, PCRPID: 0x100}
	for i := 0; i < 25; i++ {
		pm.Streams = append(pm.Streams, ref.ES{Type: 0x1B, PID: 0x100 + i, Descs: []ref.Desc{{Tag: 10, Body: []byte("eng\x00")}}})
	}
	sec := pm.Section()
	neighbour := ref.ForeignSection{TableID: 0xC0, Body: make([]byte, 60)}.Section()
	for _, lead := range [][]byte{ref.Payload(0, [][]byte{sec}, 0), ref.Payload(70, [][]byte{sec}, 0), ref.Payload(0, [][]byte{neighbour, sec}, 0), ref.Payload(150, [][]byte{sec}, 0)} {
		first := parties.Packetise(lead, parties.Carrier{PID: 0x64, CC: 3})
		for _, k := range []int{1, 2, 3, 20, 60, 100} {
			second := parties.Packetise(ref.Payload(0, [][]byte{sec}, 0), parties.Carrier{PID: 0x64, CC: 9, Sizes: []int{k}, Styles: []string{"af", "ff", "ff", "ff"}})
			stream := append([]byte(nil), first[0][:]...) // only the first packet of the first unit survives
			stream = append(stream, parties.Flatten(second)...)
			if !d.call("psi.ReadPMT(after an abandoned unit)", func() { psi.ReadPMT(bytes.NewReader(stream), 0x64) }) {
				return false
			}
		}
	}
	// Two program map sections in one payload (an update sent right behind the table it
	// replaces), the later one listing fewer streams, or other ones: the object the decoder
	// returns answers every query by PID, also for the PIDs only the earlier section had.
	for _, laterN := range []int{0, 1, 3, 30} {
		later := ref.PMTSpec{Program: 1, Version: 3, CurrentNext: true, PCRPID: 0x100}
		for i := 0; i < laterN; i++ {
			later.Streams = append(later.Streams, ref.ES{Type: 0x0F, PID: 0x100 + 2*i})
		}
		both := tight(ref.Payload(0, [][]byte{sec, later.Section()}, 3))
		var two psi.PMT
		var terr error
		if !d.ro("psi.NewPMT(two program map sections)", both, func() { two, terr = psi.NewPMT(both) }) {
			return false
		}
		if terr == nil && two != nil {
			c.Probe("pmt_with_two_program_map_sections_queried")
			if !d.pmtGetters(two) {
				return false
			}
		}
	}
	return true
}

// stress: resource bounds on long inputs (linear time and memory in the input size).
func c05Stress(s *C05Script, c *core.Ctx) {
	n := s.Stress
	if n > 6000 {
		n = 6000
	}
	c.Probe("stress_long_unit")
	c.Log("c05 stress packets=%d", n)
	// a PMT-PID unit: pointer_field 0, then back-to-back private sections of 186 bytes whose
	// ends never coincide with a packet boundary (3+183 bytes vs 184-byte payloads) - the
	// library predicate never reports completion before the data ends
	var payload []byte
	payload = append(payload, 0)
	// total section sizes: 186 (never ends on a packet boundary), and sizes that divide 65536
	// (64, 256, 1024), so that a 16-bit cursor wrapping around lands on a section start again
	body := []int{179, 57, 249, 1017}[s.Stamp%4]
	for len(payload) < n*184 {
		sec := ref.ForeignSection{TableID: 0x42, Body: make([]byte, body)}.Section()
		payload = append(payload, sec...)
	}
	payload = payload[:n*184]
	if payload[len(payload)-1] == 0xFF {
		payload[len(payload)-1] = 0x00 // keep the last (incomplete) section from looking like stuffing
	}
	pk := parties.Packetise(payload, parties.Carrier{PID: 0x64})
	stream := parties.Flatten(pk)
	input := uint64(len(stream))
	limit := 64*input + 4<<20
	d := &c05Run{c: c, limit: limit}
	c.Unit("stream_bytes", int64(len(stream)))
	measure := func(name string, f func()) bool {
		a0 := core.HeapAllocs()
		if !c.Call(name, f) {
			return false
		}
		if a := core.HeapAllocs() - a0; a > limit {
			c.Fail("bounded_memory", "stress_alloc:"+name, fmt.Sprintf("%d bytes allocated for %d bytes of input (%.0fx)", a, input, float64(a)/float64(input)), fmt.Sprintf("<= 64x input + 4 MiB"))
			return false
		}
		return true
	}
	_ = d
	for _, pred := range []struct {
		name string
		f    func([]byte) (bool, error)
	}{{"never", func([]byte) (bool, error) { return false, nil }}, {"library", psi.PmtAccumulatorDoneFunc}} {
		pred := pred
		if !measure("Accumulator long unit ("+pred.name+" predicate)", func() {
			acc := packet.NewAccumulator(pred.f)
			for i := range pk {
				p := packet.Packet(pk[i])
				acc.WritePacket(&p)
			}
			acc.Bytes()
			acc.Packets()
			// any call order: reset, look, offer a packet that is refused, look, start again
			acc.Reset()
			acc.Bytes()
			acc.Packets()
			if len(pk) > 1 {
				p := packet.Packet(pk[1])
				acc.WritePacket(&p)
				acc.Bytes()
			}
			acc.Reset()
			p0 := packet.Packet(pk[0])
			acc.WritePacket(&p0)
			acc.Bytes()
			acc.Packets()
		}) {
			return
		}
	}
	if !measure("psi.ReadPMT long unit", func() { psi.ReadPMT(bytes.NewReader(stream), 0x64) }) {
		return
	}
	if !measure("packetWriter.ReadFrom long stream", func() {
		sink := packet.PacketWriterFunc(func(*packet.Packet) (int, error) { return 188, nil })
		packet.IOWriter(sink).(io.ReaderFrom).ReadFrom(bytes.NewReader(stream))
	}) {
		return
	}
	// splice_info_sections whose descriptor loop is close to the 16-bit limit: decode,
	// then print and re-encode whatever decodes
	for _, loop := range []int{65490, 65500, 65510, 65514, 65515, 65519, 65520, 65525, 65529, 65530, 65535} {
		loop := loop
		sec := []byte{0xFC, 0x30, 0x00, 0x00, 0x00, 0x00, 0x00, 0x00, 0x00, 0x00, 0xFF, 0xF0, 0x05, 0x06, 0xFE, 0x00, 0x01, 0x02, 0x03, byte(loop >> 8), byte(loop)}
		for left := loop; left > 0; {
			l := left - 2
			if l > 253 {
				l = 253
			}
			if left-2-l == 1 { // never leave a single byte for the next descriptor
				l--
			}
			sec = append(sec, 0x00, byte(l))
			sec = append(sec, make([]byte, l)...)
			left -= 2 + l
		}
		sec = append(sec, 0, 0, 0, 0)
		in := append([]byte{0}, sec...)
		if !measure("scte35 near-64KiB descriptor loop", func() {
			if sc, err := scte35.NewSCTE35(in); err == nil && sc != nil {
				_ = sc.String()
				sc.UpdateData()
				sc.Data()
			}
		}) {
			return
		}
	}
	// sync search over a long run of false sync bytes
	junk := bytes.Repeat([]byte{0x47, 0x00, 0x05, 0x10}, n*47)
	if !measure("packet.Sync long garbage", func() { packet.Sync(bufio.NewReaderSize(bytes.NewReader(junk), 4096)) }) {
		return
	}
}

func (c05) Exec(script interface{}, c *core.Ctx) {
	s := script.(*C05Script)
	if s.Stress > 0 {
		c05Stress(s, c)
		return
	}
	if s.Stamp%16 == 3 {
		if !c05Directed(s, c) {
			return
		}
	}
	b := c05Build(s, c)
	st := b.stream
	c.Log("c05 msgs=%d faults=%d stream=%d", len(s.Msgs), len(s.Faults), len(st))
	c.Log("stream %x", st)
	c.Unit("stream_bytes", int64(len(st)))
	c.Unit("packets_on_wire", int64(len(st)/188))
	// Cumulative allocation of one call. The statement bounds the memory a call uses, i.e.
	// live memory (watched by the watchdog: 1 GiB); cumulative allocation is bounded only
	// loosely, to catch a runaway-but-terminating loop. It must stay clear of
	// scte35.String(), whose `str +=` building allocates quadratically in the printed
	// lines (75 MiB for one 150-byte splice_insert with component_count damaged to 207).
	d := &c05Run{c: c, limit: uint64(4096*len(st) + 1<<30)}
	// positive control: no fault in the script, benign reader, PAT and PMT present
	clean := len(s.Faults) == 0 && !parties.HasErrOps(s.Reads) && len(s.Msgs) >= 2 && s.Msgs[0].Kind == "pat" && s.Msgs[1].Kind == "pmt" &&
		len(s.Msgs[0].PAT.Entries) > 0 && s.Msgs[0].PAT.Entries[len(s.Msgs[0].PAT.Entries)-1].PID == s.Msgs[1].PID
	if clean {
		c.Probe("no_fault_positive_control")
	}

	// ---- pass 1: the CLI's way
	sr := parties.NewSimReader(st, s.Reads, c)
	sr.DefaultKind = s.Default
	bs := s.BufSize
	if bs < 16 {
		bs = 16
	}
	br := bufio.NewReaderSize(sr, bs)
	var pat psi.PAT
	var pmts []psi.PMT
	var err error
	var off int64
	if !d.call("packet.Sync", func() { off, err = packet.Sync(br) }) {
		return
	}
	if clean && (err != nil || off != 0) {
		c.Fail("positive_control", "clean:sync", fmt.Sprint(off, err), "0 <nil>")
		return
	}
	scteSeen := map[int]bool{}
	if err == nil {
		if !d.call("psi.ReadPAT", func() { pat, err = psi.ReadPAT(br) }) {
			return
		}
		if clean && (err != nil || pat == nil) {
			c.Fail("positive_control", "clean:readpat", err, nil)
			return
		}
		if err == nil && pat != nil {
			c.Probe("reached_pat")
			var pm map[int]int
			if !d.call("pat getters", func() { pat.NumPrograms(); pm = pat.ProgramMap(); pat.SPTSpmtPID() }) {
				return
			}
			var pns []int
			for pn := range pm {
				pns = append(pns, pn)
			}
			sort.Ints(pns)
			for _, pn := range pns {
				var pmt psi.PMT
				pid := pm[pn]
				if !d.call("psi.ReadPMT", func() { pmt, err = psi.ReadPMT(br, pid) }) {
					return
				}
				if clean && (err != nil || pmt == nil) {
					c.Fail("positive_control", "clean:readpmt", err, nil)
					return
				}
				if err == nil && pmt != nil {
					c.Probe("reached_pmt")
					pmts = append(pmts, pmt)
					if !d.pmtGetters(pmt) {
						return
					}
					for _, es := range pmt.ElementaryStreams() {
						if es.StreamType() == psi.PmtStreamTypeScte35 {
							scteSeen[es.ElementaryPid()] = true
						}
					}
				}
			}
		}
		// remainder, packet by packet, as the CLI does
		for guard := 0; guard < 200; guard++ {
			var pkt packet.Packet
			if _, e := io.ReadFull(br, pkt[:]); e != nil {
				break
			}
			if scteSeen[packet.Pid(&pkt)] {
				var pay []byte
				var e error
				if !d.ro("packet.Payload", pkt[:], func() { pay, e = packet.Payload(&pkt) }) {
					return
				}
				if e == nil {
					if !d.scte(pay, "cli") {
						return
					}
				}
			}
			if !d.ebp(&pkt) {
				return
			}
		}
	}
	if b.sctePid != 0 {
		scteSeen[b.sctePid] = true
	}

	// ---- pass 2: every 188-byte chunk (from offset 0 and from the sync offset), full battery
	state := scte35.NewState()
	accs := map[int]packet.Accumulator{}
	var prev *packet.Packet
	starts := []int{0}
	if off > 0 && off < int64(len(st)) {
		starts = append(starts, int(off))
	}
	pmtPid := map[int]bool{}
	for _, p := range b.pmtPids {
		pmtPid[p] = true
	}
	if pat != nil {
		var pm map[int]int
		if !d.call("pat.ProgramMap", func() { pm = pat.ProgramMap() }) {
			return
		}
		for _, v := range pm {
			pmtPid[v] = true
		}
	}
	npk := 0
	for _, s0 := range starts {
		for p := s0; p+188 <= len(st) && npk < 140; p += 188 {
			npk++
			chunk := st[p : p+188]
			var pkt *packet.Packet
			if !d.ro("packet.FromBytes", chunk, func() { pkt, _ = packet.FromBytes(chunk) }) {
				return
			}
			if pkt == nil {
				continue
			}
			if !d.packetBattery(pkt, pat) {
				return
			}
			if !d.ebp(pkt) {
				return
			}
			if !d.pesStage(pkt) {
				return
			}
			pid := packet.Pid(pkt)
			// accumulators with the library predicates
			if pmtPid[pid] || scteSeen[pid] {
				acc := accs[pid]
				if acc == nil {
					if pmtPid[pid] {
						acc = packet.NewAccumulator(psi.PmtAccumulatorDoneFunc)
					} else {
						acc = packet.NewAccumulator(scte35.SCTE35AccumulatorDoneFunc)
					}
					accs[pid] = acc
				}
				var e error
				if !d.ro("Accumulator.WritePacket", pkt[:], func() { _, e = acc.WritePacket(pkt) }) {
					return
				}
				if e == gots.ErrAccumulatorDone {
					var ab []byte
					var aps []*packet.Packet
					if !d.call("Accumulator.Bytes/Packets", func() { ab = acc.Bytes(); aps = acc.Packets() }) {
						return
					}
					if pmtPid[pid] {
						if !d.pmtStage(ab, aps, s) {
							return
						}
					} else {
						if !d.scte(ab, "acc") {
							return
						}
						if !d.stateStage(ab, state) {
							return
						}
					}
					if !d.call("Accumulator.Reset", func() { acc.Reset() }) {
						return
					}
				}
			}
			if !d.restamp(pkt, prev, s.Stamp+npk) {
				return
			}
			prev = pkt
		}
	}

	// ---- direct parser calls on the (damaged) message payloads, their truncations and the empty string
	for mi, pl := range b.msgs {
		cut := s.TruncAt
		if len(pl) > 0 {
			cut = s.TruncAt % (len(pl) + 1)
		}
		var long []byte
		for len(pl) > 0 && len(long) < 700 {
			long = append(long, pl...)
		}
		for vi, in := range [][]byte{pl, pl[:min(cut, len(pl))], {}, nil, long} {
			in := append([]byte(nil), in...)
			switch s.Msgs[mi].Kind {
			case "pmt":
				if !d.pmtStage(in, nil, s) {
					return
				}
			case "pat":
				if !d.patStage(in) {
					return
				}
			case "scte":
				if !d.scte(in, "direct") {
					return
				}
			case "pes", "ebp":
				if !d.pesBytes(in) {
					return
				}
				if s.Msgs[mi].Kind == "ebp" {
					eb, _ := ebpBytes(s.Msgs[mi].EBP)
					// damage the EBP with the same message faults (offsets taken modulo its length)
					for _, f := range s.Faults {
						if f.Layer == "msg" && f.Msg == mi && len(eb) > 0 && f.Kind != "trunc" {
							o := f.Off
							if f.Mark >= 0 {
								o = f.Mark
							}
							o %= len(eb)
							switch f.Kind {
							case "flip":
								eb[o] ^= 1 << uint(f.Val&7)
							case "set":
								eb[o] = byte(f.Val)
							case "add":
								eb[o] = byte(int(eb[o]) + f.Val)
							}
						}
					}
					// a long input: the (damaged) EBP followed by 300 bytes that all carry the
					// grouping extension bit - byte strings need not come out of a 188-byte packet
					long := append(append([]byte(nil), eb...), bytes.Repeat([]byte{0x80 | byte(cut)}, 300)...)
					for _, e := range [][]byte{eb, eb[:min(cut, len(eb))], {}, long} {
						if !d.ebpBytes(append([]byte(nil), e...)) {
							return
						}
					}
				}
			}
			if c.Failed() {
				return
			}
			// descriptors can also be built directly from any byte string
			if (vi == 1 || vi == 4) && (mi+s.Stamp)%3 == 0 && !d.descriptorStage(in) {
				return
			}
		}
		if mi == 0 {
			// bodies longer than a descriptor inside a PMT can be (>= 256 bytes), without 0x01
			if !d.descriptorStage(bytes.Repeat([]byte{0x80 | byte(s.TruncAt)&0x7e}, 300)) {
				return
			}
		}
	}

	// ---- writer adapter over the same damaged stream
	{
		sink := parties.NewSimSink(parties.SinkPlan{FailAt: -1}, c)
		w := packet.IOWriter(sink)
		r2 := parties.NewSimReader(st, s.Reads, nil)
		if !d.call("packetWriter.ReadFrom", func() { w.(io.ReaderFrom).ReadFrom(r2) }) {
			return
		}
		c.Probe("reached_readfrom")
		n := len(st) - len(st)%188
		cp := append([]byte(nil), st[:n]...)
		if !d.ro("packetWriter.Write", cp, func() { w.Write(cp) }) {
			return
		}
		// chunks that are not packet aligned, cut from one larger buffer the caller re-uses:
		// whatever Write does with them, the buffer (also beyond the chunk) is the caller's
		if len(st) >= 600 {
			big := append([]byte(nil), st[:600]...)
			a := 100 + s.Stamp%150
			if !d.ro("packetWriter.Write(unaligned)", big, func() {
				w.Write(big[:a])
				w.Write(big[a : a+188])
				w.Write(big[:188])
			}) {
				return
			}
		}
	}
	if clean {
		// on an undamaged stream the pipeline must have decoded its tables
		if len(pmts) == 0 {
			c.Fail("positive_control", "clean:no_pmt_decoded", 0, ">=1")
		}
	}
}

func (d *c05Run) pmtGetters(pm psi.PMT) bool {
	return d.call("pmt getters", func() {
		pm.Pids()
		pm.VersionNumber()
		pm.CurrentNextIndicator()
		_ = pm.String()
		for _, es := range pm.ElementaryStreams() {
			es.StreamType()
			psi.LookupPmtStreamType(es.StreamType())
			es.StreamTypeDescription()
			es.IsStreamWherePresentationLagsEbp()
			es.IsAudioContent()
			es.IsVideoContent()
			es.IsSCTE35Content()
			es.IsID3Content()
			es.IsPrivateContent()
			es.MaxBitRate()
			es.IsTTMLSubtitling()
			pm.IsPidForStreamWherePresentationLagsEbp(es.ElementaryPid())
			pm.PIDExists(es.ElementaryPid())
			_ = fmt.Sprintf("%v %+v", es, es)
			for _, ds := range es.Descriptors() {
				ds.Tag()
				_ = ds.Format()
				ds.IsIso639LanguageDescriptor()
				ds.IsMaximumBitrateDescriptor()
				ds.IsIFrameProfile()
				ds.IsEBPDescriptor()
				ds.DecodeMaximumBitRate()
				ds.DecodeIso639LanguageCode()
				ds.DecodeIso639AudioType()
				ds.IsDolbyATMOS()
				ds.IsDolbyVision()
				ds.DecodeDolbyVisionCodec("hev1")
				ds.IsTTMLSubtitlingDescriptor()
				ds.DecodeTTMLIso639LanguageCode()
				ds.DecodeTTMLSubtitlePurpose()
				ds.IsTTMLDescTagExtension()
				_ = fmt.Sprintf("%v", ds)
			}
		}
		// the queries by PID take any PID, not only those the table lists (a PID of an earlier,
		// superseded section of the same payload for instance)
		for pid := 0; pid < 0x2000; pid++ {
			pm.IsPidForStreamWherePresentationLagsEbp(pid)
			pm.PIDExists(pid)
		}
		pm.RemoveElementaryStreams([]int{0x100, 0x1234})
		pm.Pids()
		for pid := 0; pid < 0x2000; pid += 7 {
			pm.IsPidForStreamWherePresentationLagsEbp(pid)
		}
	})
}

// pmtStage: NewPMT and friends on a payload; filter on the packets when given.
// tight returns a copy whose capacity equals its length, so that a slice expression that
// runs past the data panics instead of quietly reading spare capacity.
func tight(b []byte) []byte {
	t := make([]byte, len(b))
	copy(t, b)
	return t[:len(b):len(b)]
}

func (d *c05Run) pmtStage(in []byte, pkts []*packet.Packet, s *C05Script) bool {
	in = tight(in)
	// the same payload cut short by a few bytes (a section that ends just outside the data)
	for _, cut := range []int{1, 2, 3, 4, 5} {
		if len(in) > cut {
			pre := tight(in[:len(in)-cut])
			if !d.ro("psi.ExtractCRC(prefix)", pre, func() { psi.ExtractCRC(pre) }) {
				return false
			}
			if !d.ro("psi.NewPMT(prefix)", pre, func() { psi.NewPMT(pre) }) {
				return false
			}
			if !d.ro("psi.PmtAccumulatorDoneFunc(prefix)", pre, func() { psi.PmtAccumulatorDoneFunc(pre) }) {
				return false
			}
		}
	}
	var pm psi.PMT
	var err error
	if !d.ro("psi.NewPMT", in, func() { pm, err = psi.NewPMT(in) }) {
		return false
	}
	if err == nil && pm != nil {
		snap := append([]byte(nil), in...)
		if !d.pmtGetters(pm) || !d.unchanged("pmt getters", in, snap) {
			return false
		}
	}
	if !d.ro("psi.PmtAccumulatorDoneFunc", in, func() { psi.PmtAccumulatorDoneFunc(in) }) {
		return false
	}
	if !d.ro("psi.ExtractCRC", in, func() { psi.ExtractCRC(in) }) {
		return false
	}
	if !d.psiAccessors(in) {
		return false
	}
	if len(pkts) > 0 {
		d.c.Probe("reached_filter")
		for _, want := range [][]int{{0x100}, {0x100, 0x101, 0x1F5}, {0x1ABC}, {}, {0x100, 0x1ABC, 0}} {
			snap := make([]packet.Packet, len(pkts))
			for i, p := range pkts {
				snap[i] = *p
			}
			var out []*packet.Packet
			if !d.call("psi.FilterPMTPacketsToPids", func() { out, _ = psi.FilterPMTPacketsToPids(pkts, want) }) {
				return false
			}
			for i, p := range pkts {
				if *p != snap[i] {
					d.c.Fail("inputs_untouched", "modified_input:psi.FilterPMTPacketsToPids", i, "unchanged")
					return false
				}
			}
			_ = out
		}
	}
	return true
}

// descriptorStage: psi.NewPmtDescriptor on an arbitrary body, for every tag a decoder
// looks at, then every getter.
func (d *c05Run) descriptorStage(body []byte) bool {
	for _, tag := range []uint8{5, 10, 14, 82, 0x7F, 0xB0, 0xCC, 0xE9, 0x97, 0} {
		tag := tag
		ok := d.ro("psi.NewPmtDescriptor+getters", body, func() {
			ds := psi.NewPmtDescriptor(tag, body)
			ds.Tag()
			_ = ds.Format()
			ds.IsIso639LanguageDescriptor()
			ds.IsMaximumBitrateDescriptor()
			ds.IsIFrameProfile()
			ds.IsEBPDescriptor()
			ds.DecodeMaximumBitRate()
			ds.DecodeIso639LanguageCode()
			ds.DecodeIso639AudioType()
			ds.IsDolbyATMOS()
			ds.IsDolbyVision()
			ds.DecodeDolbyVisionCodec("hev1")
			ds.IsTTMLSubtitlingDescriptor()
			ds.DecodeTTMLIso639LanguageCode()
			ds.DecodeTTMLSubtitlePurpose()
			ds.IsTTMLDescTagExtension()
			es := psi.NewPmtElementaryStream(0x87, 0x101, []psi.PmtDescriptor{ds})
			es.MaxBitRate()
			es.IsTTMLSubtitling()
			_ = fmt.Sprintf("%v", es)
		})
		if !ok {
			return false
		}
	}
	return true
}

func (d *c05Run) psiAccessors(in []byte) bool {
	for _, x := range []struct {
		n string
		f func()
	}{
		{"psi.PointerField", func() { psi.PointerField(in) }},
		{"psi.TableID", func() { psi.TableID(in) }},
		{"psi.SectionSyntaxIndicator", func() { psi.SectionSyntaxIndicator(in) }},
		{"psi.PrivateIndicator", func() { psi.PrivateIndicator(in) }},
		{"psi.SectionLength", func() { psi.SectionLength(in) }},
		{"psi.TableHeaderFromBytes", func() {
			if th, e := psi.TableHeaderFromBytes(in); e == nil {
				th.Data()
			}
		}},
	} {
		if !d.ro(x.n, in, x.f) {
			return false
		}
	}
	return true
}

func (d *c05Run) patStage(in []byte) bool {
	in = tight(in)
	var p psi.PAT
	var err error
	if !d.ro("psi.NewPAT", in, func() { p, err = psi.NewPAT(in) }) {
		return false
	}
	if err == nil && p != nil {
		if !d.call("pat getters", func() { p.NumPrograms(); p.ProgramMap(); p.SPTSpmtPID() }) {
			return false
		}
	}
	return d.psiAccessors(in)
}

// scte: decoder + second stage on a payload.
func (d *c05Run) scte(in []byte, how string) bool {
	in = tight(in)
	var sc scte35.SCTE35
	var err error
	if !d.ro("scte35.NewSCTE35", in, func() { sc, err = scte35.NewSCTE35(in) }) {
		return false
	}
	if !d.ro("scte35.SCTE35AccumulatorDoneFunc", in, func() { scte35.SCTE35AccumulatorDoneFunc(in) }) {
		return false
	}
	if err != nil || sc == nil {
		return true
	}
	d.c.Probe("reached_scte35")
	snap := append([]byte(nil), in...)
	return d.call("scte35 getters/print", func() {
		sc.HasPTS()
		sc.PTS()
		sc.Tier()
		sc.Command()
		sc.AlignmentStuffing()
		sc.Data()
		ci := sc.CommandInfo()
		if ci != nil {
			ci.CommandType()
			ci.HasPTS()
			ci.PTS()
			ci.Data()
			if in, ok := ci.(scte35.SpliceInsertCommand); ok {
				in.EventID()
				in.IsEventCanceled()
				in.IsOut()
				in.IsProgramSplice()
				in.HasDuration()
				in.SpliceImmediate()
				in.IsAutoReturn()
				in.Duration()
				in.UniqueProgramId()
				in.AvailNum()
				in.AvailsExpected()
				for _, cp := range in.Components() {
					cp.ComponentTag()
					cp.HasPTS()
					cp.PTS()
				}
			}
		}
		ds := sc.Descriptors()
		for _, x := range ds {
			c05QueryDesc(x, ds)
		}
		_ = sc.String()
		_ = fmt.Sprintf("%v", sc)
	}) && d.unchanged("scte35 getters/print", in, snap) && d.call("scte35 re-encode", func() {
		enc := sc.UpdateData()
		// what was re-encoded must at least decode again without blowing up
		if len(enc) > 0 {
			scte35.NewSCTE35(append([]byte{0}, enc...))
		}
	}) && d.call("scte35 descriptors kept by the caller after the signal dropped them", func() {
		// a descriptor obtained from the decoded signal is an object of the caller's: it can be
		// queried like before once the signal's descriptor list has been replaced without it
		ds := sc.Descriptors()
		if len(ds) == 0 {
			return
		}
		d.c.Probe("descriptor_queried_after_its_signal_dropped_it")
		sc.SetDescriptors(ds[1:])
		c05QueryDesc(ds[0], ds)
		for _, y := range sc.Descriptors() {
			c05QueryDesc(y, ds)
		}
		st := scte35.NewState()
		st.ProcessDescriptor(ds[0])
		st.ProcessDescriptor(ds[0])
		st.Close(ds[0])
		_ = sc.String()
		sc.UpdateData()
		sc.SetDescriptors(nil)
		for _, y := range ds {
			c05QueryDesc(y, ds)
		}
		_ = sc.String()
		sc.UpdateData()
	})
}

// c05QueryDesc: every getter of a descriptor, and the two relations against each of `others`.
func c05QueryDesc(x scte35.SegmentationDescriptor, others []scte35.SegmentationDescriptor) {
	x.SCTE35()
	x.EventID()
	x.IsEventCanceled()
	x.HasProgramSegmentation()
	x.HasDuration()
	x.Duration()
	x.IsDeliveryNotRestricted()
	x.IsWebDeliveryAllowed()
	x.HasNoRegionalBlackout()
	x.IsArchiveAllowed()
	x.DeviceRestrictions()
	for _, co := range x.Components() {
		co.ComponentTag()
		co.PTSOffset()
	}
	x.UPIDType()
	x.UPID()
	for _, u := range x.MID() {
		u.UPIDType()
		u.UPID()
	}
	x.TypeID()
	x.SegmentNumber()
	x.SegmentsExpected()
	x.HasSubSegments()
	x.SubSegmentNumber()
	x.SubSegmentsExpected()
	x.StreamSwitchSignalId()
	x.IsOut()
	x.IsIn()
	x.SegmentNum()
	x.Data()
	for _, y := range others {
		x.CanClose(y)
		x.Equal(y)
		y.CanClose(x)
		y.Equal(x)
	}
}

// unchanged: querying and printing a decoded object are read-only operations;
// the buffer the object was decoded from must still hold the caller's bytes.
func (d *c05Run) unchanged(stage string, buf, snap []byte) bool {
	if !bytes.Equal(buf, snap) {
		d.c.Fail("inputs_untouched", "modified_input:"+stage, "decoded-from buffer changed", "unchanged")
		return false
	}
	return true
}

func (d *c05Run) stateStage(in []byte, state scte35.State) bool {
	var sc scte35.SCTE35
	var err error
	if !d.call("scte35.NewSCTE35", func() { sc, err = scte35.NewSCTE35(in) }) {
		return false
	}
	if err != nil || sc == nil {
		return true
	}
	d.c.Probe("reached_state")
	for _, x := range sc.Descriptors() {
		x := x
		if !d.call("State.ProcessDescriptor", func() { state.ProcessDescriptor(x) }) {
			return false
		}
		if !d.call("State.Open", func() { state.Open() }) {
			return false
		}
		if x.HasDuration() {
			if !d.call("State.Close", func() { state.Close(x) }) {
				return false
			}
		}
	}
	return true
}

func (d *c05Run) ebp(pkt *packet.Packet) bool {
	var eb []byte
	var err error
	if !d.ro("adaptationfield.EncoderBoundaryPoint", pkt[:], func() { eb, err = adaptationfield.EncoderBoundaryPoint(pkt) }) {
		return false
	}
	if err != nil {
		return true
	}
	return d.ebpBytes(eb)
}

func (d *c05Run) ebpBytes(eb []byte) bool {
	eb = tight(eb)
	var bp ebp.EncoderBoundaryPoint
	var err error
	if !d.ro("ebp.ReadEncoderBoundaryPoint", eb, func() { bp, err = ebp.ReadEncoderBoundaryPoint(eb) }) {
		return false
	}
	if err != nil || bp == nil {
		return true
	}
	d.c.Probe("reached_ebp")
	snap := append([]byte(nil), eb...)
	defer func() {
		if !d.c.Failed() {
			d.unchanged("ebp getters/print/re-encode", eb, snap)
		}
	}()
	return d.call("ebp getters/print/re-encode", func() {
		bp.SegmentFlag()
		bp.FragmentFlag()
		bp.TimeFlag()
		bp.GroupingFlag()
		bp.EBPTime()
		bp.SapFlag()
		bp.Sap()
		bp.ExtensionFlag()
		bp.EBPType()
		bp.IsEmpty()
		bp.StreamSyncSignal()
		bp.EBPSuccessReadTime()
		_ = fmt.Sprintf("%+v", bp)
		enc := bp.Data()
		if len(enc) > 0 {
			ebp.ReadEncoderBoundaryPoint(enc)
		}
	})
}

func (d *c05Run) pesStage(pkt *packet.Packet) bool {
	var hb []byte
	var err error
	if !d.ro("packet.PESHeader", pkt[:], func() { hb, err = packet.PESHeader(pkt) }) {
		return false
	}
	if !d.ro("pes.AlignedPUSI", pkt[:], func() { pes.AlignedPUSI(pkt) }) {
		return false
	}
	if !d.ro("Packet.PESHeader-like getters", pkt[:], func() { pkt.Payload() }) {
		return false
	}
	if err != nil {
		return true
	}
	return d.pesBytes(hb)
}

func (d *c05Run) pesBytes(hb []byte) bool {
	hb = tight(hb)
	var ph pes.PESHeader
	var err error
	if !d.ro("pes.ExtractTime", hb, func() { pes.ExtractTime(hb); pes.CheckLength(hb, "x", len(hb)+1) }) {
		return false
	}
	if !d.ro("pes.NewPESHeader", hb, func() { ph, err = pes.NewPESHeader(hb) }) {
		return false
	}
	if err != nil || ph == nil {
		return true
	}
	d.c.Probe("reached_pes")
	snap := append([]byte(nil), hb...)
	defer func() {
		if !d.c.Failed() {
			d.unchanged("pes getters/print", hb, snap)
		}
	}()
	return d.call("pes getters/print", func() {
		ph.HasPTS()
		ph.PTS()
		ph.HasDTS()
		ph.DTS()
		ph.Data()
		ph.StreamId()
		ph.DataAligned()
		ph.PacketStartCodePrefix()
		if f, ok := ph.(interface{ Format() string }); ok {
			_ = f.Format()
		}
		_ = fmt.Sprintf("%+v", ph)
	})
}

// packetBattery: every accessor of both styles on one packet (read-only).
func (d *c05Run) packetBattery(pkt *packet.Packet, pat psi.PAT) bool {
	buf := pkt[:]
	if !d.ro("packet function-style accessors", buf, func() {
		packet.PayloadUnitStartIndicator(pkt)
		packet.Pid(pkt)
		packet.ContainsPayload(pkt)
		packet.ContainsAdaptationField(pkt)
		packet.ContinuityCounter(pkt)
		packet.IsNull(pkt)
		packet.IsPat(pkt)
		packet.IncrementCC(pkt)
		packet.ZeroCC(pkt)
		packet.SetCC(pkt, 7)
		packet.Equal(pkt, pkt)
		packet.CopyPackets([]*packet.Packet{pkt})
	}) {
		return false
	}
	if !d.ro("packet.Payload", buf, func() { packet.Payload(pkt) }) {
		return false
	}
	if !d.ro("packet.Header", buf, func() { packet.Header(pkt) }) {
		return false
	}
	if !d.ro("Packet method getters", buf, func() {
		pkt.CheckErrors()
		pkt.TransportErrorIndicator()
		pkt.PayloadUnitStartIndicator()
		pkt.TransportPriority()
		pkt.PID()
		pkt.TransportScramblingControl()
		pkt.AdaptationFieldControl()
		pkt.HasPayload()
		pkt.HasAdaptationField()
		pkt.ContinuityCounter()
		pkt.IsNull()
		pkt.IsPAT()
		pkt.Equals(pkt)
	}) {
		return false
	}
	if !d.ro("Packet.Payload", buf, func() { pkt.Payload() }) {
		return false
	}
	var af *packet.AdaptationField
	if !d.ro("Packet.AdaptationField", buf, func() { af, _ = pkt.AdaptationField() }) {
		return false
	}
	if af != nil {
		for _, x := range []struct {
			n string
			f func()
		}{
			{"AdaptationField flag getters", func() {
				af.Length()
				af.Discontinuity()
				af.RandomAccess()
				af.ElementaryStreamPriority()
				af.HasPCR()
				af.HasOPCR()
				af.HasSplicingPoint()
				af.HasTransportPrivateData()
				af.HasAdaptationFieldExtension()
			}},
			{"AdaptationField.PCR", func() { af.PCR() }},
			{"AdaptationField.OPCR", func() { af.OPCR() }},
			{"AdaptationField.SpliceCountdown", func() { af.SpliceCountdown() }},
			{"AdaptationField.TransportPrivateData", func() { af.TransportPrivateData() }},
			{"AdaptationField.AdaptationFieldExtension", func() { af.AdaptationFieldExtension() }},
		} {
			if !d.ro(x.n, buf, x.f) {
				return false
			}
		}
	}
	for _, x := range []struct {
		n string
		f func()
	}{
		{"adaptationfield flag readers", func() {
			adaptationfield.Length(pkt)
			adaptationfield.IsDiscontinuous(pkt)
			adaptationfield.IsRandomAccess(pkt)
			adaptationfield.IsESHigherPriority(pkt)
			adaptationfield.HasPCR(pkt)
			adaptationfield.HasOPCR(pkt)
			adaptationfield.HasSplicingPoint(pkt)
			adaptationfield.HasTransportPrivateData(pkt)
			adaptationfield.HasAdaptationFieldExtension(pkt)
		}},
		{"adaptationfield.PCR", func() { adaptationfield.PCR(pkt) }},
		{"adaptationfield.OPCR", func() { adaptationfield.OPCR(pkt) }},
		{"adaptationfield.SpliceCountdown", func() { adaptationfield.SpliceCountdown(pkt) }},
		{"adaptationfield.TransportPrivateData", func() { adaptationfield.TransportPrivateData(pkt) }},
	} {
		if !d.ro(x.n, buf, x.f) {
			return false
		}
	}
	// PSI view of the payload
	var pay []byte
	var perr error
	if !d.call("packet.Payload", func() { pay, perr = packet.Payload(pkt) }) {
		return false
	}
	if perr == nil {
		cp := tight(pay)
		if !d.psiAccessors(cp) {
			return false
		}
		if !d.ro("psi.ExtractCRC", cp, func() { psi.ExtractCRC(cp) }) {
			return false
		}
		if !d.ro("psi.PmtAccumulatorDoneFunc", cp, func() { psi.PmtAccumulatorDoneFunc(cp) }) {
			return false
		}
		if packet.IsPat(pkt) {
			if !d.patStage(cp) {
				return false
			}
			whole := append([]byte(nil), pkt[:]...)
			if !d.ro("psi.NewPAT(packet)", whole, func() {
				if p, e := psi.NewPAT(whole); e == nil && p != nil {
					p.NumPrograms()
					p.ProgramMap()
					p.SPTSpmtPID()
				}
			}) {
				return false
			}
		}
	}
	if packet.IsPat(pkt) {
		// the 188-byte carrier with the payload squeezed out by an adaptation field: lengths
		// around the point where nothing, or less than nothing, is left for the table
		for _, l := range []byte{0, 1, 170, 175, 181, 182, 183, 184, 255} {
			v := *pkt
			v[3] |= 0x30
			v[4] = l
			whole := tight(v[:])
			if !d.ro("psi.NewPAT(packet, adaptation field squeezed in)", whole, func() {
				if p, e := psi.NewPAT(whole); e == nil && p != nil {
					p.NumPrograms()
					p.ProgramMap()
					p.SPTSpmtPID()
				}
			}) {
				return false
			}
		}
	}
	if !d.ro("psi.IsPMT", buf, func() { psi.IsPMT(pkt, pat); psi.IsPMT(pkt, nil) }) {
		return false
	}
	return true
}

// restamp: the modifiers, applied to a copy of a received packet.
func (d *c05Run) restamp(pkt, other *packet.Packet, k int) bool {
	d.c.Probe("reached_restamp")
	cp := *pkt
	p := &cp
	data := make([]byte, []int{0, 1, 7, 100, 183, 184, 200}[k%7])
	for i := range data {
		data[i] = byte(k + i)
	}
	steps := []struct {
		n string
		f func()
	}{
		{"Packet header setters", func() {
			p.SetTransportErrorIndicator(k&1 == 0)
			p.SetPayloadUnitStartIndicator(k&2 == 0)
			p.SetTransportPriority(k&4 == 0)
			p.SetPID(k * 31)
			p.SetTransportScramblingControl(packet.TransportScramblingControlOptions(k % 4))
			p.SetContinuityCounter(k)
			p.IncContinuityCounter()
			p.ZeroContinuityCounter()
		}},
		{"Packet.SetPayload", func() { p.SetPayload(data) }},
		{"Packet.SetAdaptationFieldControl", func() { p.SetAdaptationFieldControl(packet.AdaptationFieldControlOptions(1 + k%3)) }},
		{"Packet.SetPayload(2)", func() { p.SetPayload(data[:len(data)/2]) }},
	}
	for _, s := range steps {
		if !d.call(s.n, s.f) {
			return false
		}
	}
	// adaptation-field setters on a fresh copy that still has the received (possibly damaged) field
	cp2 := *pkt
	q := &cp2
	var af *packet.AdaptationField
	if !d.call("Packet.AdaptationField", func() { af, _ = q.AdaptationField() }) {
		return false
	}
	if af != nil {
		priv := make([]byte, []int{0, 1, 5, 60, 180, 190}[k%6])
		for _, s := range []struct {
			n string
			f func()
		}{
			{"AdaptationField.SetDiscontinuity", func() { af.SetDiscontinuity(true); af.SetRandomAccess(false); af.SetElementaryStreamPriority(true) }},
			{"AdaptationField.SetHasPCR", func() { af.SetHasPCR(k&1 == 0) }},
			{"AdaptationField.SetPCR", func() { af.SetPCR(uint64(k) * 1234567) }},
			{"AdaptationField.SetHasOPCR", func() { af.SetHasOPCR(k&2 == 0) }},
			{"AdaptationField.SetOPCR", func() { af.SetOPCR(uint64(k)) }},
			{"AdaptationField.SetHasSplicingPoint", func() { af.SetHasSplicingPoint(k&4 == 0) }},
			{"AdaptationField.SetSpliceCountdown", func() { af.SetSpliceCountdown(byte(k)) }},
			{"AdaptationField.SetHasTransportPrivateData", func() { af.SetHasTransportPrivateData(k&8 == 0) }},
			{"AdaptationField.SetTransportPrivateData", func() { af.SetTransportPrivateData(priv) }},
			{"AdaptationField.SetHasAdaptationFieldExtension", func() { af.SetHasAdaptationFieldExtension(k&16 == 0) }},
			{"AdaptationField.SetAdaptationFieldExtension", func() { af.SetAdaptationFieldExtension(priv[:len(priv)/2]) }},
			{"AdaptationField.SetHasTransportPrivateData(off)", func() { af.SetHasTransportPrivateData(false) }},
			{"AdaptationField getters after edits", func() {
				af.PCR()
				af.OPCR()
				af.SpliceCountdown()
				af.TransportPrivateData()
				af.AdaptationFieldExtension()
			}},
			{"Packet.SetPayload after edits", func() { q.SetPayload(data) }},
		} {
			if !d.call(s.n, s.f) {
				return false
			}
		}
		// data of exactly the length a (possibly damaged) length byte announces: the length byte
		// of private data / extension is one of the bytes 6..19 of the packet
		seen := map[byte]bool{}
		for i := 6; i < 20; i++ {
			n := pkt[i]
			if seen[n] {
				continue
			}
			seen[n] = true
			cpn := *pkt
			var afn *packet.AdaptationField
			if !d.call("Packet.AdaptationField", func() { afn, _ = (&cpn).AdaptationField() }) {
				return false
			}
			if afn == nil {
				break
			}
			buf := make([]byte, int(n))
			if !d.call("AdaptationField.SetTransportPrivateData(len from packet)", func() { afn.SetTransportPrivateData(buf) }) {
				return false
			}
			cpn = *pkt
			if !d.call("AdaptationField.SetAdaptationFieldExtension(len from packet)", func() { afn.SetAdaptationFieldExtension(buf) }) {
				return false
			}
		}
		if other != nil {
			var oaf *packet.AdaptationField
			if !d.call("Packet.AdaptationField", func() { oaf, _ = other.AdaptationField() }) {
				return false
			}
			if oaf != nil {
				cp3 := *pkt
				if !d.call("Packet.SetAdaptationField", func() { cp3.SetAdaptationField(oaf) }) {
					return false
				}
			}
		}
	}
	return true
}

func (c05) Shrink(script interface{}) []interface{} {
	s := script.(*C05Script)
	var out []interface{}
	cp := func() *C05Script {
		n := *s
		n.Msgs = append([]C05Msg(nil), s.Msgs...)
		n.Faults = append([]C05Fault(nil), s.Faults...)
		n.Picks = append([]int(nil), s.Picks...)
		n.Reads = append([]parties.ReadOp(nil), s.Reads...)
		return &n
	}
	// drop faults
	for _, keep := range core.DropChunks(len(s.Faults)) {
		n := cp()
		n.Faults = nil
		for _, i := range keep {
			n.Faults = append(n.Faults, s.Faults[i])
		}
		out = append(out, n)
	}
	// drop messages (renumber message faults)
	for i := len(s.Msgs) - 1; i >= 0; i-- {
		n := cp()
		n.Msgs = append(append([]C05Msg(nil), s.Msgs[:i]...), s.Msgs[i+1:]...)
		var fs []C05Fault
		for _, f := range s.Faults {
			if f.Layer == "msg" {
				if f.Msg == i {
					continue
				}
				if f.Msg > i {
					f.Msg--
				}
			}
			fs = append(fs, f)
		}
		n.Faults = fs
		out = append(out, n)
	}
	if len(s.Picks) > 0 {
		n := cp()
		n.Picks = nil
		out = append(out, n)
	}
	if len(s.Reads) > 0 || s.Default != "" {
		n := cp()
		n.Reads, n.Default = nil, ""
		out = append(out, n)
	}
	for i, m := range s.Msgs {
		if len(m.Carrier.Sizes) > 0 {
			n := cp()
			n.Msgs[i].Carrier.Sizes, n.Msgs[i].Carrier.Styles = nil, nil
			out = append(out, n)
		}
		if m.Pointer != 0 {
			n := cp()
			n.Msgs[i].Pointer = 0
			if n.Msgs[i].SCTE != nil {
				sp := *n.Msgs[i].SCTE
				sp.Pointer = 0
				n.Msgs[i].SCTE = &sp
			}
			out = append(out, n)
		}
		if m.PMT != nil {
			for _, p := range shrinkPMT(*m.PMT) {
				p := p
				n := cp()
				n.Msgs[i].PMT = &p
				out = append(out, n)
			}
		}
		if m.SCTE != nil && len(m.SCTE.Descs) > 0 {
			for k := range m.SCTE.Descs {
				n := cp()
				sp := *m.SCTE
				sp.Descs = append(append([]C10Desc(nil), m.SCTE.Descs[:k]...), m.SCTE.Descs[k+1:]...)
				n.Msgs[i].SCTE = &sp
				out = append(out, n)
			}
		}
		if m.PES != nil && len(m.PES.Data) > 0 {
			n := cp()
			ps := *m.PES
			ps.Data = nil
			n.Msgs[i].PES = &ps
			out = append(out, n)
		}
	}
	if s.TruncAt != 0 || s.Stamp != 0 {
		n := cp()
		n.TruncAt, n.Stamp = 0, 0
		out = append(out, n)
	}
	if s.Stress > 300 {
		n := cp()
		n.Stress = s.Stress / 2
		out = append(out, n)
	}
	return out
}

var _ = ref.PacketSize
