package props

import (
	"bufio"
	"bytes"
	"fmt"
	"io"
	"reflect"
	"sort"

	gots "github.com/Comcast/gots/v2"
	"github.com/Comcast/gots/v2/packet"
	"github.com/Comcast/gots/v2/psi"

	"verif/sim/core"
	"verif/sim/parties"
	"verif/sim/ref"
)

// C07 - PAT decoding over its three carriers (payload bytes, 188-byte packet,
// position in a multiplexed stream read through a fragmenting/failing reader).

type C07Script struct {
	PAT      ref.PATSpec      `json:"pat"`
	AFLen    int              `json:"af_len"`  // -1: no adaptation field in the PAT packet
	Second   bool             `json:"second"`  // a different, later PAT follows (must not be returned)
	NoPAT    bool             `json:"no_pat"`  // stream has no PID-0 packet
	CutAt    int              `json:"cut_at"`  // >0: stream ends this many bytes into the PAT packet
	Foreign  int              `json:"foreign"` // foreign packets muxed around the PAT
	Picks    []int            `json:"picks,omitempty"`
	Salt     int              `json:"salt"`
	Reads    []parties.ReadOp `json:"reads,omitempty"`
	Default  string           `json:"default_read,omitempty"`
	ProbePID []int            `json:"probe_pids,omitempty"`
	// Wrap: the reader handed to ReadPAT is the SimReader behind a bufio.Reader of this size
	// (0: the SimReader itself). What kind of io.Reader it is must not matter.
	Wrap int `json:"wrap,omitempty"`
}

type c07 struct{}

func init() { core.Register(c07{}) }

func (c07) ID() string       { return "C07" }
func (c07) New() interface{} { return &C07Script{} }
func (c07) Info() core.Info {
	return core.Info{
		Runs: map[string]int{"quick": 1500000, "thorough": 100000000},
		Rule: "Each run builds one abstract PAT (0..42 entries, distinct program numbers incl. optional program 0, 13-bit PIDs biased above 255, random reserved bits), serialises it with the reference serialiser into a PID-0 packet (with or without adaptation field), places it by a scripted multiplexer among 0..30 packets of other PIDs (optionally followed by a different later PAT, optionally absent, optionally cut by end of stream) and reads it back through ReadPAT over a SimReader with scripted Read outcomes; the payload and 188-byte-packet carriers are decoded in the same run and compared. In a quarter of the error-free runs the reader handed to ReadPAT is a bufio.Reader (16..4096 bytes) over the SimReader; foreign traffic includes PIDs 4..15 and payloads full of fake packet starts. Non-trivial = at least one reach probe fired. Added in waves 19-21: refused decodes whose nil-valued result is handed to IsPMT; the stream in a bytes.Buffer that is drained and refilled after the table was read; a stream that ends inside a payload-less PID-0 packet; readers with a Seek method that always fails.",
		Real: []string{"psi.ReadPAT", "psi.NewPAT", "pat.NumPrograms/ProgramMap/SPTSpmtPID", "psi.IsPMT", "packet.Payload", "io.ReadFull (stdlib)"},
		Stub: []string{"PAT source + reference serialiser/CRC", "multiplexer (scripted picks)", "SimReader"},
		Assumptions: []string{
			"pointer_field is 0 (the statement does not quantify over pointer_field for the PAT) and program numbers are distinct",
			"after an injected reader error ReadPAT may return that error or the exact answer; nothing else is relaxed",
		},
		RequiredProbes: []string{"entries_0", "entries_1_program", "entries_1_network", "entries_ge3", "entries_42", "pid_gt_255", "pat_after_foreign", "no_pat", "eof_inside_pat", "one_byte_reads", "second_pat_ignored", "pat_with_af", "caller_scribbles_program_map", "held_pat_rechecked", "af_only_packet_before_pat", "buffer_reused_for_next_pat", "pat_after_70000_packets", "reader_is_a_bufio_reader", "bufio_reader_and_first_packet_pid_4_to_15", "payload_of_192_bytes_with_0x47_at_byte_4", "current_next_indicator_0"},
	}
}

func (c07) Gen(r *core.Rand, tier string) interface{} {
	s := &C07Script{Salt: r.Intn(1000), AFLen: -1}
	n := r.Pick(0, 1, 1, 1, 2, 3, 5, 8, 20, 41, 42, r.Range(0, 42))
	s.PAT.TSID = r.Pick(r.Intn(65536), r.Intn(65536), r.Intn(65536), 0x4700|r.Intn(256), 0x0047, 0x4747)
	s.PAT.Version = r.Intn(32)
	s.PAT.Reserved = r.Pick(7, 7, 0, r.Intn(8))
	s.PAT.HdrFlip = r.Pick(0, 0, 0, 0x01, 0x01, 0xC0, 0xC1, 0x40)
	used := map[int]bool{}
	for i := 0; i < n; i++ {
		pn := r.Range(1, 65535)
		if r.Chance(1, 3) {
			pn = r.Range(1, 40)
		}
		if !used[0] && r.Chance(1, 6) {
			pn = 0
		}
		if used[pn] {
			i--
			continue
		}
		used[pn] = true
		pid := r.Pick(0x10, 0x20, 0xFF, 0x100, 0x101, 0x1FFE, 0x1FFF, r.Range(16, 0x1FFF), r.Range(256, 0x1FFF))
		s.PAT.Entries = append(s.PAT.Entries, ref.PATEntry{Program: pn, PID: pid})
	}
	room := 184 - (1 + 12 + 4*n)
	if room > 1 && r.Chance(1, 3) {
		s.AFLen = r.Pick(0, 1, room-1, r.Range(0, room-1))
	}
	s.Foreign = r.Pick(0, 0, 1, 2, 5, 12, 30)
	for i := r.Range(0, s.Foreign+3); i > 0; i-- {
		s.Picks = append(s.Picks, r.Intn(4))
	}
	s.Second = r.Chance(1, 4)
	switch r.Intn(12) {
	case 0:
		s.NoPAT = true
	case 1:
		s.CutAt = r.Pick(1, 3, 4, 5, 100, 187, r.Range(1, 187))
	}
	style := r.PickS("full", "full", "frag", "one", "mixed")
	if style == "one" {
		s.Default = "one"
	} else {
		s.Reads = parties.GenReadOps(r, r.Range(1, 20), style, r.Chance(1, 8))
	}
	if r.Chance(1, 4) {
		s.Wrap = r.Pick(16, 188, 189, 4096)
	}
	for i := r.Range(1, 4); i > 0; i-- {
		if n > 0 && r.Bool() {
			s.ProbePID = append(s.ProbePID, s.PAT.Entries[r.Intn(n)].PID)
		} else {
			s.ProbePID = append(s.ProbePID, r.Pick(0, 1, 0x1FFF, r.Range(0, 0x1FFF)))
		}
	}
	return s
}

func (c07) SweepSize(string) int              { return 0 }
func (c07) SweepCase(string, int) interface{} { return nil }
func (c07) Size(script interface{}) int {
	s := script.(*C07Script)
	return len(s.PAT.Entries)*2 + s.Foreign + len(s.Reads) + len(s.Picks) + len(s.ProbePID)
}

func c07Foreign(i, salt int) parties.Pkt {
	if (i*7+salt)%5 == 0 {
		// adaptation field only, no payload (e.g. a PCR-only packet of the video PID)
		var p parties.Pkt
		p[0], p[1], p[2], p[3], p[4], p[5] = 0x47, 0x01, 0x00, 0x20|byte(i&0x0f), 183, 0x10
		copy(p[6:], []byte{0x00, 0x01, 0x02, 0x03, 0x7E, 0x00})
		for k := 12; k < 188; k++ {
			p[k] = 0xFF
		}
		return p
	}
	if (i*11+salt)%7 == 0 {
		// a PID from the range a sync heuristic refuses (4..15; they are "other PIDs" all the
		// same), or an ordinary one, whose payload is full of things that look like packet starts
		var p parties.Pkt
		pid := 4 + (i+salt)%12
		if (i+salt)%4 == 0 {
			pid = 0x100 + i
		}
		p[0], p[1], p[2], p[3] = 0x47, byte(pid>>8), byte(pid), 0x10|byte(i&0x0f)
		for k := 4; k < 188; k++ {
			p[k] = byte(k*13 + salt)
		}
		for k := 5 + salt%40; k+4 <= 188; k += 23 + salt%17 {
			p[k], p[k+1], p[k+2], p[k+3] = 0x47, byte(0x01+salt%3), byte(k), 0x10
		}
		return p
	}
	switch (i + salt) % 3 {
	case 0:
		return parties.NullPacket(salt + i)
	case 1:
		return parties.PESPacket(0x31+(salt%5), i, salt)
	default:
		// a PMT-looking section on another PID, with PUSI
		pm := ref.PMTSpec{Program: 1, Version: i & 31, PCRPID: 0x31, Streams: []ref.ES{{Type: 0x1b, PID: 0x31}}}
		return parties.Packetise(ref.Payload(0, [][]byte{pm.Section()}, 0), parties.Carrier{PID: 0x1000 + salt%7, CC: i, Styles: []string{"ff"}})[0]
	}
}

// c07NilPAT: a nil interface, or an interface holding a nil pointer/slice/map.
func c07NilPAT(p psi.PAT) bool {
	if p == nil {
		return true
	}
	v := reflect.ValueOf(p)
	switch v.Kind() {
	case reflect.Ptr, reflect.Slice, reflect.Map, reflect.Interface, reflect.Func, reflect.Chan:
		return v.IsNil()
	}
	return false
}

func (c07) Exec(script interface{}, c *core.Ctx) {
	s := script.(*C07Script)
	sec := s.PAT.Section()
	payload := ref.Payload(0, [][]byte{sec}, 0)
	// PAT packet: optional AF, payload, 0xFF stuffing
	afl := s.AFLen
	if afl > 184-1-len(payload) {
		afl = 184 - 1 - len(payload)
	}
	var patPkt parties.Pkt
	patPkt[0], patPkt[1], patPkt[2] = 0x47, 0x40, 0x00
	off := 4
	if afl >= 0 {
		patPkt[3] = 0x30 | byte(s.Salt&0x0f)
		patPkt[4] = byte(afl)
		if afl >= 1 {
			patPkt[5] = 0x00
			for k := 6; k < 5+afl; k++ {
				patPkt[k] = 0xFF
			}
		}
		off = 5 + afl
		c.Probe("pat_with_af")
	} else {
		patPkt[3] = 0x10 | byte(s.Salt&0x0f)
	}
	copy(patPkt[off:], payload)
	for k := off + len(payload); k < 188; k++ {
		patPkt[k] = 0xFF
	}
	// expected values straight from the abstract PAT
	wantMap := map[int]int{}
	for _, e := range s.PAT.Entries {
		if e.Program != 0 {
			wantMap[e.Program] = e.PID & 0x1fff
		}
		if e.PID > 255 {
			c.Probe("pid_gt_255")
		}
	}
	n := len(s.PAT.Entries)
	switch {
	case n == 0:
		c.Probe("entries_0")
	case n == 1 && s.PAT.Entries[0].Program != 0:
		c.Probe("entries_1_program")
	case n == 1:
		c.Probe("entries_1_network")
	case n >= 3:
		c.Probe("entries_ge3")
	}
	if n == 42 {
		c.Probe("entries_42")
	}
	c.Log("pat section %x", sec)
	c.Log("c07 entries=%d af=%d foreign=%d nopat=%t cut=%d second=%t", n, afl, s.Foreign, s.NoPAT, s.CutAt, s.Second)

	checkPAT := func(p psi.PAT, carrier string) bool {
		var np int
		var pm map[int]int
		var spid int
		var serr error
		if !c.Call("pat.NumPrograms", func() { np = p.NumPrograms() }) {
			return false
		}
		if np != n {
			c.Fail("num_programs", carrier+":num_programs", np, n)
			return false
		}
		if !c.Call("pat.ProgramMap", func() { pm = p.ProgramMap() }) {
			return false
		}
		if !mapEq(pm, wantMap) {
			c.Fail("program_map", carrier+":program_map", fmtMap(pm), fmtMap(wantMap))
			return false
		}
		// the caller owns the returned map: emptying and polluting it must not change what
		// the PAT answers afterwards
		for k := range pm {
			delete(pm, k)
		}
		pm[7777] = 0x1234
		c.Probe("caller_scribbles_program_map")
		var pm2 map[int]int
		if !c.Call("pat.ProgramMap(again)", func() { pm2 = p.ProgramMap() }) {
			return false
		}
		if !mapEq(pm2, wantMap) {
			c.Fail("program_map", carrier+":program_map_after_caller_edit", fmtMap(pm2), fmtMap(wantMap))
			return false
		}
		if !c.Call("pat.SPTSpmtPID", func() { spid, serr = p.SPTSpmtPID() }) {
			return false
		}
		if n == 1 && s.PAT.Entries[0].Program != 0 {
			if serr != nil || spid != s.PAT.Entries[0].PID&0x1fff {
				c.Fail("spts_pid", carrier+":spts_pid_wrong", fmt.Sprint(spid, serr), s.PAT.Entries[0].PID)
				return false
			}
		} else if serr == nil {
			c.Fail("spts_pid", carrier+":spts_pid_should_fail", spid, "an error")
			return false
		}
		for _, pid := range s.ProbePID {
			var pk packet.Packet
			pk[0], pk[1], pk[2], pk[3] = 0x47, byte(pid>>8)&0x1f, byte(pid), 0x10
			want := false
			for _, v := range wantMap {
				if v == pid&0x1fff {
					want = true
				}
			}
			var got bool
			var err error
			if !c.Call("psi.IsPMT", func() { got, err = psi.IsPMT(&pk, p) }) {
				return false
			}
			if err != nil || got != want {
				c.Fail("is_pmt", carrier+":is_pmt", fmt.Sprint(got, err), want)
				return false
			}
		}
		return true
	}

	// decoded objects are kept and checked again after later, different decodes
	type heldPAT = struct {
		p       psi.PAT
		carrier string
	}
	var held []heldPAT
	// carrier 1: payload bytes (exact, and as carried in the packet with stuffing)
	// the payload followed by stuffing up to some other length (188 itself is taken as a whole
	// packet by NewPAT; 192 is the size of an M2TS source packet, which this is not)
	padded := append([]byte(nil), payload...)
	for want := []int{184, 187, 189, 192, 200, 376}[s.Salt%6]; len(padded) < want; {
		padded = append(padded, 0xFF)
	}
	if len(padded) == 192 && len(padded) > 4 && padded[4] == 0x47 {
		c.Probe("payload_of_192_bytes_with_0x47_at_byte_4")
	}
	for _, pl := range [][]byte{payload, patPkt[off:], padded} {
		var p psi.PAT
		var err error
		cpy := append([]byte(nil), pl...)
		if !c.Call("psi.NewPAT(payload)", func() { p, err = psi.NewPAT(cpy) }) {
			return
		}
		if err != nil {
			c.Fail("carrier_payload", "payload:newpat_error", err, nil)
			return
		}
		if !checkPAT(p, "payload") {
			return
		}
		held = append(held, heldPAT{p, "payload"})
	}
	// carrier 2: the whole 188-byte packet
	{
		var p psi.PAT
		var err error
		cpy := append([]byte(nil), patPkt[:]...)
		if !c.Call("psi.NewPAT(packet)", func() { p, err = psi.NewPAT(cpy) }) {
			return
		}
		if err != nil {
			c.Fail("carrier_packet", "packet:newpat_error", err, nil)
			return
		}
		if !checkPAT(p, "packet") {
			return
		}
		held = append(held, heldPAT{p, "packet"})
	}
	// nil PAT
	{
		var pk packet.Packet
		var err error
		if !c.Call("psi.IsPMT(nil)", func() { _, err = psi.IsPMT(&pk, nil) }) {
			return
		}
		if err != gots.ErrNilPAT {
			c.Fail("nil_pat", "nil_pat_not_rejected", err, "ErrNilPAT")
			return
		}
	}
	// carrier 3: the stream
	var foreign []parties.Pkt
	for i := 0; i < s.Foreign; i++ {
		foreign = append(foreign, c07Foreign(i, s.Salt))
	}
	var main []parties.Pkt
	if !s.NoPAT {
		main = append(main, patPkt)
		if s.Second {
			other := s.PAT
			other.Entries = append([]ref.PATEntry{{Program: 4242, PID: 0x0abc}}, other.Entries...)
			if len(other.Entries) > 42 {
				other.Entries = other.Entries[:42]
			}
			var p2 parties.Pkt
			p2[0], p2[1], p2[2], p2[3] = 0x47, 0x40, 0x00, 0x11
			pl2 := ref.Payload(0, [][]byte{other.Section()}, 0)
			copy(p2[4:], pl2)
			for k := 4 + len(pl2); k < 188; k++ {
				p2[k] = 0xFF
			}
			main = append(main, p2)
		}
	} else {
		c.Probe("no_pat")
	}
	seq, from := parties.Mux([][]parties.Pkt{main, foreign}, s.Picks)
	patIdx := -1
	for i, q := range from {
		if q == 0 {
			patIdx = i
			break
		}
	}
	stream := parties.Flatten(seq)
	found := patIdx >= 0
	if found && s.CutAt > 0 && s.CutAt < 188 {
		stream = stream[:patIdx*188+s.CutAt]
		found = false
		c.Probe("eof_inside_pat")
		c.Fault("stream_truncated")
	}
	if found && patIdx > 0 {
		c.Probe("pat_after_foreign")
		for i := 0; i < patIdx; i++ {
			if seq[i][3]&0x30 == 0x20 {
				c.Probe("af_only_packet_before_pat")
				break
			}
		}
	}
	if found && s.Second {
		c.Probe("second_pat_ignored")
	}
	if s.Default == "one" {
		c.Probe("one_byte_reads")
	}
	if s.PAT.HdrFlip&1 != 0 {
		c.Probe("current_next_indicator_0")
	}
	c.Unit("packets_on_wire", int64(len(stream)/188))
	c.Unit("stream_bytes", int64(len(stream)))
	sr := parties.NewSimReader(stream, s.Reads, c)
	sr.DefaultKind = s.Default
	var p psi.PAT
	var err error
	var rd io.Reader = sr
	if s.Wrap > 0 && !parties.HasErrOps(s.Reads) {
		rd = bufio.NewReaderSize(sr, s.Wrap)
		c.Probe("reader_is_a_bufio_reader")
		if patIdx > 0 && seq[0][1]&0x1f == 0 && seq[0][2] >= 4 && seq[0][2] <= 15 {
			c.Probe("bufio_reader_and_first_packet_pid_4_to_15")
		}
	}
	if s.Wrap == 0 && s.Salt%5 == 3 {
		rd = parties.RefusingSeeker{Reader: sr}
		c.Probe("reader_has_a_seek_method_that_refuses")
	}
	if !c.Call("psi.ReadPAT", func() { p, err = psi.ReadPAT(rd) }) {
		return
	}
	c.Log("readpat err=%v reads=%d pos=%d", err, sr.Calls, sr.Pos())
	if parties.IsReaderFault(err) {
		if sr.FirstErr == nil {
			c.Fail("reader_error", "stream:error_from_nowhere", err, nil)
		}
		return
	}
	if !found {
		if err != gots.ErrPATNotFound {
			c.Fail("not_found", "stream:pat_not_found_error_missing", fmt.Sprint(p, err), "ErrPATNotFound")
		}
		return
	}
	if err != nil {
		c.Fail("carrier_stream", "stream:readpat_error", err, nil)
		return
	}
	if !checkPAT(p, "stream") {
		return
	}
	held = append(held, heldPAT{p, "stream"})
	c07Recheck(c, s, held, checkPAT)
	if c.Failed() {
		return
	}
	// a refused decode: whatever comes back beside the error, if it is a nil PAT (a nil interface
	// or a nil value inside one), classifying a packet with it is an error like for any nil PAT
	if s.Salt%4 == 1 {
		var bad packet.Packet
		bad[0], bad[1], bad[2] = 0x47, 0x40, 0x00
		switch (s.Salt / 4) % 3 {
		case 0: // adaptation field only
			bad[3], bad[4], bad[5] = 0x20, 183, 0x00
			for k := 6; k < 188; k++ {
				bad[k] = 0xFF
			}
		case 1: // adaptation field running past the packet
			bad[3], bad[4] = 0x30, 200
		default: // five payload bytes
			bad[3], bad[4], bad[5] = 0x30, 178, 0x00
			for k := 6; k < 183; k++ {
				bad[k] = 0xFF
			}
		}
		var pk packet.Packet
		pk[0], pk[1], pk[2], pk[3] = 0x47, 0x01, 0x00, 0x10
		refused := func(what string, pr psi.PAT, perr error) bool {
			if perr == nil {
				return true // not refused: nothing to say here
			}
			c.Probe("refused_decode_result_used_as_pat")
			if !c07NilPAT(pr) {
				return true
			}
			var ierr error
			if !c.Call("psi.IsPMT(result of refused "+what+")", func() { _, ierr = psi.IsPMT(&pk, pr) }) {
				return false
			}
			if ierr == nil {
				c.Fail("nil_pat", "nil_pat_from_refused_"+what+"_not_rejected", fmt.Sprintf("%T", pr), "an error (nil PAT)")
				return false
			}
			return true
		}
		var pr psi.PAT
		var perr error
		st := append(append([]byte(nil), bad[:]...), patPkt[:]...)
		if !c.Call("psi.ReadPAT(undecodable PID 0 packet first)", func() { pr, perr = psi.ReadPAT(bytes.NewReader(st)) }) {
			return
		}
		if !refused("ReadPAT", pr, perr) {
			return
		}
		if !c.Call("psi.NewPAT(undecodable packet)", func() { pr, perr = psi.NewPAT(append([]byte(nil), bad[:]...)) }) {
			return
		}
		if !refused("NewPAT", pr, perr) {
			return
		}
		if !c.Call("psi.NewPAT(12 bytes)", func() { pr, perr = psi.NewPAT(make([]byte, 12)) }) {
			return
		}
		if !refused("NewPAT", pr, perr) {
			return
		}
	}
	// the stream arrives in a bytes.Buffer that keeps receiving: the table read from it is the
	// table, whatever the producer writes into the buffer afterwards. Also: a stream that ends
	// inside a PID-0 packet without payload has no PID-0 packet either.
	if s.Salt%4 == 2 && found {
		buf := new(bytes.Buffer)
		buf.Write(stream[:(patIdx+1)*188])
		var pb psi.PAT
		var berr error
		if !c.Call("psi.ReadPAT(bytes.Buffer)", func() { pb, berr = psi.ReadPAT(buf) }) {
			return
		}
		if berr != nil {
			c.Fail("carrier_stream", "stream:readpat_error_from_a_bytes_buffer", berr, nil)
			return
		}
		if !checkPAT(pb, "stream") {
			return
		}
		io.Copy(io.Discard, buf)
		// (exactly as much as the buffer held before: it re-uses its storage rather than growing)
		junk := bytes.Repeat([]byte{0x47, 0x1F, 0xFE, 0x10, 0x00, 0xB0, 0xFF, 0x3C}, 47*(patIdx+1)/2+1)[:(patIdx+1)*188]
		buf.Write(junk)
		c.Probe("buffer_the_pat_was_read_from_keeps_receiving")
		if !checkPAT(pb, "stream_buffer_written_later") {
			return
		}
		var cut packet.Packet
		cut[0], cut[1], cut[2], cut[3], cut[4], cut[5] = 0x47, 0x40, 0x00, 0x20, 183, 0x00
		for k := 6; k < 188; k++ {
			cut[k] = 0xFF
		}
		var cerr error
		tr := append(append([]byte(nil), stream[:patIdx*188]...), cut[:4+s.Salt%184]...)
		if !c.Call("psi.ReadPAT(stream ends inside a PID 0 packet without payload)", func() { _, cerr = psi.ReadPAT(bytes.NewReader(tr)) }) {
			return
		}
		if cerr != gots.ErrPATNotFound {
			c.Fail("not_found", "stream:pat_not_found_error_missing_for_cut_payloadless_packet", cerr, "ErrPATNotFound")
			return
		}
	}
	// the caller re-uses one buffer for successive tables of the same size: what the
	// library answers for the new table must not come from the previous one
	if n > 0 {
		buf := append([]byte(nil), payload...)
		var pa psi.PAT
		var err error
		if !c.Call("psi.NewPAT(reused buffer, first)", func() { pa, err = psi.NewPAT(buf) }) {
			return
		}
		if err == nil {
			var pk packet.Packet
			pid0 := s.PAT.Entries[0].PID & 0x1fff
			pk[0], pk[1], pk[2], pk[3] = 0x47, byte(pid0>>8), byte(pid0), 0x10
			c.Call("psi.IsPMT(first)", func() { psi.IsPMT(&pk, pa) })
			other := s.PAT
			other.Entries = append([]ref.PATEntry(nil), s.PAT.Entries...)
			for i := range other.Entries {
				other.Entries[i].PID = (other.Entries[i].PID + 0x155) & 0x1fff
			}
			copy(buf, ref.Payload(0, [][]byte{other.Section()}, 0))
			keepSpec, keepMap := s.PAT, wantMap
			s2 := *s
			s2.PAT = other
			wantMap = map[int]int{}
			for _, e := range other.Entries {
				if e.Program != 0 {
					wantMap[e.Program] = e.PID
				}
			}
			s2.ProbePID = append([]int{pid0, other.Entries[0].PID}, s.ProbePID...)
			sOrig := s
			s = &s2
			var pb psi.PAT
			okb := c.Call("psi.NewPAT(reused buffer, second)", func() { pb, err = psi.NewPAT(buf) })
			if okb && err == nil {
				c.Probe("buffer_reused_for_next_pat")
				checkPAT(pb, "reused_buffer")
			}
			s, wantMap = sOrig, keepMap
			_ = keepSpec
		}
	}
	if c.Failed() {
		return
	}
	// a PAT far into a long stream (packets generated on the fly)
	if s.Salt == 999 {
		far := 66000
		gr := &c07GenReader{foreign: far, pat: patPkt}
		var pl psi.PAT
		var err error
		if !c.Call("psi.ReadPAT(long stream)", func() { pl, err = psi.ReadPAT(gr) }) {
			return
		}
		c.Probe("pat_after_70000_packets")
		if err != nil {
			c.Fail("carrier_stream", "stream:pat_far_into_the_stream_not_found", err, nil)
			return
		}
		checkPAT(pl, "long_stream")
	}
}

// c07GenReader yields `foreign` null packets, then the PAT packet, then EOF.
type c07GenReader struct {
	foreign int
	pat     parties.Pkt
	cur     []byte
	done    bool
}

func (g *c07GenReader) Read(p []byte) (int, error) {
	if len(g.cur) == 0 {
		switch {
		case g.foreign > 0:
			g.foreign--
			pk := parties.NullPacket(g.foreign)
			g.cur = pk[:]
		case !g.done:
			g.done = true
			g.cur = append([]byte(nil), g.pat[:]...)
		default:
			return 0, io.EOF
		}
	}
	k := copy(p, g.cur)
	g.cur = g.cur[k:]
	return k, nil
}

// c07Recheck decodes a different PAT through every carrier and then checks the
// objects decoded earlier again: a decoded PAT must not change under later decodes.
func c07Recheck(c *core.Ctx, s *C07Script, held []struct {
	p       psi.PAT
	carrier string
}, check func(psi.PAT, string) bool) {
	decoy := ref.PATSpec{TSID: 9, Version: 1, Reserved: 7, Entries: []ref.PATEntry{{Program: 4242, PID: 0x0abc}, {Program: 4243, PID: 0x0abd}, {Program: 0, PID: 0x11}}}
	pl := ref.Payload(0, [][]byte{decoy.Section()}, 0)
	var pk parties.Pkt
	pk[0], pk[1], pk[2], pk[3] = 0x47, 0x40, 0x00, 0x12
	copy(pk[4:], pl)
	for k := 4 + len(pl); k < 188; k++ {
		pk[k] = 0xFF
	}
	ok := c.Call("decoy decodes", func() {
		for i := 0; i < 3; i++ {
			psi.NewPAT(append([]byte(nil), pk[:]...))
			psi.NewPAT(append([]byte(nil), pl...))
			psi.ReadPAT(parties.NewSimReader(pk[:], nil, nil))
		}
	})
	if !ok {
		return
	}
	c.Probe("held_pat_rechecked")
	for _, h := range held {
		if !check(h.p, "held_"+h.carrier) {
			return
		}
	}
}

func mapEq(a, b map[int]int) bool {
	if len(a) != len(b) {
		return false
	}
	for k, v := range a {
		if w, ok := b[k]; !ok || w != v {
			return false
		}
	}
	return true
}

func fmtMap(m map[int]int) string {
	ks := make([]int, 0, len(m))
	for k := range m {
		ks = append(ks, k)
	}
	sort.Ints(ks)
	s := "{"
	for _, k := range ks {
		s += fmt.Sprintf("%d:%d ", k, m[k])
	}
	return s + "}"
}

func (c07) Shrink(script interface{}) []interface{} {
	s := script.(*C07Script)
	var out []interface{}
	cp := func() *C07Script {
		n := *s
		n.PAT.Entries = append([]ref.PATEntry(nil), s.PAT.Entries...)
		n.Picks = append([]int(nil), s.Picks...)
		n.Reads = append([]parties.ReadOp(nil), s.Reads...)
		n.ProbePID = append([]int(nil), s.ProbePID...)
		return &n
	}
	for _, keep := range core.DropChunks(len(s.PAT.Entries)) {
		n := cp()
		n.PAT.Entries = nil
		for _, i := range keep {
			n.PAT.Entries = append(n.PAT.Entries, s.PAT.Entries[i])
		}
		out = append(out, n)
	}
	if s.Foreign > 0 {
		n := cp()
		n.Foreign = 0
		out = append(out, n)
		n = cp()
		n.Foreign = s.Foreign / 2
		out = append(out, n)
	}
	if s.Wrap > 0 {
		n := cp()
		n.Wrap = 0
		out = append(out, n)
	}
	if len(s.Picks) > 0 {
		n := cp()
		n.Picks = nil
		out = append(out, n)
	}
	if s.AFLen >= 0 {
		n := cp()
		n.AFLen = -1
		out = append(out, n)
	}
	if s.Second {
		n := cp()
		n.Second = false
		out = append(out, n)
	}
	if s.CutAt > 0 {
		n := cp()
		n.CutAt = 0
		out = append(out, n)
	}
	if s.Default != "" {
		n := cp()
		n.Default = ""
		out = append(out, n)
	}
	for _, ops := range parties.ShrinkReadOps(s.Reads) {
		n := cp()
		n.Reads = ops
		out = append(out, n)
	}
	for _, keep := range core.DropChunks(len(s.ProbePID)) {
		n := cp()
		n.ProbePID = nil
		for _, i := range keep {
			n.ProbePID = append(n.ProbePID, s.ProbePID[i])
		}
		out = append(out, n)
	}
	for i, e := range s.PAT.Entries {
		if e.Program > 1 {
			n := cp()
			n.PAT.Entries[i].Program = i + 1
			out = append(out, n)
		}
		if e.PID != 0x100+i {
			n := cp()
			n.PAT.Entries[i].PID = 0x100 + i
			out = append(out, n)
		}
	}
	if s.PAT.Reserved != 7 || s.PAT.TSID != 1 || s.PAT.Version != 0 || s.Salt != 0 {
		n := cp()
		n.PAT.Reserved, n.PAT.TSID, n.PAT.Version, n.Salt = 7, 1, 0, 0
		out = append(out, n)
	}
	return out
}
