package props

import (
	"bufio"
	"bytes"
	"fmt"
	"io"

	gots "github.com/Comcast/gots/v2"
	"github.com/Comcast/gots/v2/psi"

	"verif/sim/core"
	"verif/sim/parties"
	"verif/sim/ref"
)

// C06 - PMT decoding independent of packetisation: section -> packetiser ->
// multiplexer schedule -> fragmenting/failing reader -> accumulator/ReadPMT;
// every prefix of the payload as a crash point for the completion predicate.

// Wire describes how one PSI payload travels: the carrier (packetisation),
// the foreign traffic and the multiplexer schedule, the reader behaviour.
type Wire struct {
	Carrier parties.Carrier  `json:"carrier"`
	Foreign int              `json:"foreign"` // number of foreign packets offered to the mux
	Picks   []int            `json:"picks,omitempty"`
	Salt    int              `json:"salt"`
	CutAt   int              `json:"cut_at,omitempty"` // >0: the stream is truncated to this many bytes
	Reads   []parties.ReadOp `json:"reads,omitempty"`
	Default string           `json:"default_read,omitempty"`
	// Wrap > 0: the reader handed to ReadPMT is a bufio.Reader of this size over the SimReader
	// (error-free read scripts only): what kind of io.Reader it is must not matter
	Wrap int `json:"wrap,omitempty"`
}

type C06Script struct {
	PMT      ref.PMTSpec          `json:"pmt"`
	Pointer  int                  `json:"pointer"`
	Before   []ref.ForeignSection `json:"before,omitempty"`
	Trailing int                  `json:"trailing"`
	// Prelude: complete foreign sections carried as units of their own (own unit start) on
	// the PMT PID before the PMT's unit - "other complete sections before it" in the stream
	Prelude []ref.ForeignSection `json:"prelude,omitempty"`
	Wire    Wire                 `json:"wire"`
	TH      [4]int               `json:"table_header"` // table_id, syntax, private, section_length for the header round trip
}

type c06 struct{}

func init() { core.Register(c06{}) }

func (c06) ID() string       { return "C06" }
func (c06) New() interface{} { return &C06Script{} }
func (c06) Info() core.Info {
	return core.Info{
		Runs: map[string]int{"quick": 600000, "thorough": 40000000},
		Rule: "Each run builds one abstract PMT (0..40 streams, decodable and opaque descriptors, section_length <= 1021), serialises it with the reference serialiser, prefixes pointer_field 0..182 + filler and 0..2 complete foreign sections, appends 0xFF stuffing, cuts the payload into packets at scripted sizes with a scripted stuffing style per packet (AF stuffing of length 0 / >=1, AF with PCR or flags, trailing 0xFF), interleaves them by a scripted multiplexer with packets of other PIDs (null, PES, a different PMT on another PID) and reads the stream with ReadPMT over a SimReader with scripted Read outcomes and optional truncation; NewPMT on the concatenated payload, the completion predicate on EVERY prefix of the payload (crash points), ExtractCRC and the PSI header accessors are checked in the same run; in a third of the fault-free runs a PAT, another program's PMT and this PMT are read one after the other from ONE reader (both orders), each table present once; plus a complete sweep for 3 fixed PMTs of every first-packet size 1..184 x pointer_field 0..20 x 3 stuffing styles. Non-trivial = at least one reach probe fired. Added in waves 21-22: after decoding, the caller appends to every descriptor list it was handed and the table is compared again; twenty further table headers are encoded while earlier encodings are held.",
		Real: []string{"psi.ReadPMT", "psi.NewPMT", "psi.PmtAccumulatorDoneFunc", "packet.Accumulator", "psi.ExtractCRC", "psi.PointerField/TableID/SectionSyntaxIndicator/PrivateIndicator/SectionLength", "psi.TableHeaderFromBytes/TableHeader.Data", "psi.NewPointerField", "PmtElementaryStream/PmtDescriptor getters and decoders", "io.ReadFull (stdlib)"},
		Stub: []string{"PMT source + reference serialiser/CRC", "packetiser", "multiplexer (scripted picks)", "SimReader"},
		Assumptions: []string{
			"a prefix ending exactly on the boundary after >=1 complete section when further sections follow is indistinguishable from a complete payload and is exempt from the predicate check; a packet boundary on such a point is exempt from the stream check (ISO would start a new unit there)",
			"the first packet of the PMT PID on the wire carries payload_unit_start_indicator",
			"two stream entries may name the same elementary PID; the PID list then lists it twice, in step with the stream list",
			"tables that follow one another on the same reader are each found by the next call (no call takes more from the caller's reader than the packets of the table it returns, as far as a following table can tell)",
			"descriptor bodies are compared through the decoders for the decodable kinds; opaque descriptors by tag only (the API exposes no raw body)",
			"after an injected reader error ReadPMT may return that error or the exact answer; truncation before the last needed packet must give ErrPMTNotFound",
		},
		RequiredProbes: []string{"first_packet_payload_le3", "split_inside_header", "split_inside_descriptor", "split_before_crc", "pointer_gt0", "foreign_section_before", "interleaved", "af_len0_stuffing", "multi_packet_ge3", "section_len_ge_1000", "other_pmt_on_other_pid", "trailing_stuffing", "truncated_before_end", "zero_streams", "es_info_length_ge_256", "program_info_length_ge_256", "prelude_unit_on_pmt_pid", "pointer_255", "held_pmt_rechecked", "more_than_255_descriptors", "entry_starts_with_ff_ff_ff", "pmt_after_70000_packets", "pat_and_two_pmts_from_one_reader", "reader_is_a_bufio_reader", "foreign_packet_on_pid_4_to_15", "neighbour_section_longer_than_1021"},
	}
}

func genWire(r *core.Rand, payloadLen int, pid int) Wire {
	w := Wire{Salt: r.Intn(1000)}
	w.Carrier = parties.Carrier{PID: pid, CC: r.Intn(16), TP: r.Chance(1, 8)}
	if r.Chance(1, 8) {
		w.Carrier.TSC = r.Range(1, 3) // scrambling control bits set: the payload starts where it starts
	}
	// sizes
	mode := r.Intn(6)
	for covered := 0; covered < payloadLen; {
		var n int
		switch mode {
		case 0:
			n = 184
		case 1:
			n = r.Pick(1, 2, 3, 4, 5)
		case 2:
			n = r.Range(1, 184)
		case 3:
			n = r.Pick(1, 2, 3, 183, 184, 184, 184)
		case 4:
			n = r.Pick(183, 184, 182, 100)
		default:
			n = r.Pick(1, 3, 4, 8, 12, 13, 16, 17, 184, r.Range(1, 184))
		}
		w.Carrier.Sizes = append(w.Carrier.Sizes, n)
		w.Carrier.Styles = append(w.Carrier.Styles, r.PickS("af", "af", "afpcr", "afrai", "ff"))
		covered += n
		if len(w.Carrier.Sizes) > 60 {
			break // the rest travels in full packets
		}
	}
	w.Foreign = r.Pick(0, 0, 1, 3, 8, 20)
	for i := r.Range(0, w.Foreign+len(w.Carrier.Sizes)); i > 0; i-- {
		w.Picks = append(w.Picks, r.Intn(5))
	}
	style := r.PickS("full", "full", "frag", "one", "mixed")
	if style == "one" {
		w.Default = "one"
	} else {
		w.Reads = parties.GenReadOps(r, r.Range(1, 30), style, r.Chance(1, 10))
	}
	return w
}

func (c06) Gen(r *core.Rand, tier string) interface{} {
	s := &C06Script{}
	s.PMT = genPMT(r, 40)
	if n := len(s.PMT.Streams); n >= 2 && r.Chance(1, 10) {
		// "any list of elementary streams": two entries on one elementary PID (e.g. a stream
		// announced with two stream types); the PID list lists it twice, like the stream list
		j := r.Range(1, n-1)
		s.PMT.Streams[j].PID = s.PMT.Streams[r.Intn(j)].PID
	}
	// up to 182 the first section starts inside the first packet (ISO); larger values are
	// still a legal payload layout for the library (filler reaching into the next packet)
	s.Pointer = r.Pick(0, 0, 0, 1, 5, 20, 182, 183, 254, 255, r.Range(0, 182), r.Range(0, 255))
	for i := r.Pick(0, 0, 0, 1, 2); i > 0; i-- {
		f := genForeignSection(r)
		if r.Chance(1, 8) {
			// the 1021-byte limit is the PMT's; a private section next to it may be up to 4093
			f.Body = r.Bytes(r.Pick(1017, 1018, 1019, 2000, 4089))
		}
		s.Before = append(s.Before, f)
	}
	s.Trailing = r.Pick(0, 0, 1, 2, 10, 100, 200)
	for i := r.Pick(0, 0, 0, 0, 1, 2); i > 0; i-- {
		f := genForeignSection(r)
		if r.Chance(1, 3) {
			f.Body = r.Bytes(r.Range(150, 400)) // a unit of its own that spans packets
		}
		s.Prelude = append(s.Prelude, f)
	}
	plen := 1 + s.Pointer + len(s.PMT.Section()) + s.Trailing
	for _, f := range s.Before {
		plen += len(f.Section())
	}
	pid := r.Pick(0x20, 0x64, 0x40, 0xFFF, 0x1100, 0x1FFE, r.Range(0x40, 0xFFF))
	s.Wire = genWire(r, plen, pid)
	if r.Chance(1, 4) {
		s.Wire.Wrap = r.Pick(16, 188, 189, 4096)
	}
	if r.Chance(1, 12) {
		s.Wire.CutAt = r.Range(1, ((plen+183)/184+s.Wire.Foreign)*188)
	}
	s.TH = [4]int{r.Intn(256), r.Intn(2), r.Intn(2), r.Pick(r.Intn(1024), r.Intn(4096), 1021, 1023, 1024, 4093, 4095)}
	return s
}

var c06SweepPMTs = []ref.PMTSpec{
	{Program: 1, Version: 3, CurrentNext: true, PCRPID: 0x100, Streams: []ref.ES{{Type: 0x1B, PID: 0x100}}},
	{Program: 7, Version: 31, CurrentNext: false, PCRPID: 0x1FFF, ProgDescs: []ref.Desc{{Tag: 5, Body: []byte("CUEI")}},
		Streams: []ref.ES{{Type: 0x1B, PID: 0x100, Descs: []ref.Desc{{Tag: 14, Body: []byte{0xC1, 0x02, 0x03}}}}, {Type: 0x0F, PID: 0x101, Descs: []ref.Desc{{Tag: 10, Body: []byte("eng\x00")}}}}},
	func() ref.PMTSpec {
		p := ref.PMTSpec{Program: 2, Version: 0, CurrentNext: true, PCRPID: 0x200}
		for i := 0; i < 12; i++ {
			e := ref.ES{Type: streamTypes[i%len(streamTypes)], PID: 0x200 + i}
			if i%2 == 0 {
				e.Descs = append(e.Descs, ref.Desc{Tag: 10, Body: []byte{'a' + byte(i), 'b', 'c', byte(i)}})
			}
			if i%3 == 0 {
				e.Descs = append(e.Descs, ref.Desc{Tag: 82, Body: []byte{byte(i)}})
			}
			p.Streams = append(p.Streams, e)
		}
		return p
	}(),
}

const c06Sweep = 3 * 21 * 3 * 184

func (c06) SweepSize(string) int { return c06Sweep }

func (c06) SweepCase(tier string, i int) interface{} {
	k := 1 + i%184
	i /= 184
	style := []string{"af", "afrai", "ff"}[i%3]
	i /= 3
	ptr := i % 21
	i /= 21
	s := &C06Script{PMT: c06SweepPMTs[i], Pointer: ptr}
	s.Wire.Carrier = parties.Carrier{PID: 0x64, Sizes: []int{k}, Styles: []string{style, style, style, style}}
	s.TH = [4]int{2, 1, 0, 13}
	return s
}

func (c06) Size(script interface{}) int {
	s := script.(*C06Script)
	n := len(s.PMT.Streams)*3 + len(s.PMT.ProgDescs) + len(s.Before)*2 + s.Pointer/8 + s.Trailing/16
	for _, e := range s.PMT.Streams {
		n += len(e.Descs)
	}
	return n + len(s.Wire.Carrier.Sizes) + s.Wire.Foreign + len(s.Wire.Reads) + len(s.Wire.Picks)
}

// foreignPkts builds the foreign traffic of a wire: null packets, PES packets
// and - as an adversary - a different PMT carried on another PID.
func foreignPkts(w Wire, c *core.Ctx) []parties.Pkt {
	var out []parties.Pkt
	var otherPMT []parties.Pkt
	for i := 0; len(out) < w.Foreign; i++ {
		if (i*11+w.Salt)%7 == 0 {
			// a PID a sync heuristic refuses (4..15), or an ordinary one, with a payload full
			// of things that look like packet starts
			var p parties.Pkt
			pid := 4 + (i+w.Salt)%12 // never a PMT PID of these checks (all >= 0x20)
			p[0], p[1], p[2], p[3] = 0x47, byte(pid>>8), byte(pid), 0x10|byte(i&0x0f)
			for k := 4; k < 188; k++ {
				p[k] = byte(k*13 + w.Salt)
			}
			for k := 5 + w.Salt%40; k+4 <= 188; k += 23 + w.Salt%17 {
				p[k], p[k+1], p[k+2], p[k+3] = 0x47, byte(0x01+w.Salt%3), byte(k), 0x10
			}
			out = append(out, p)
			if c != nil && pid < 16 {
				c.Probe("foreign_packet_on_pid_4_to_15")
			}
			continue
		}
		switch (i + w.Salt) % 4 {
		case 0:
			out = append(out, parties.NullPacket(w.Salt+i))
		case 1, 2:
			out = append(out, parties.PESPacket(0x31+(w.Salt%5), i, w.Salt))
		default:
			if len(otherPMT) == 0 {
				pm := ref.PMTSpec{Program: 99, Version: 9, CurrentNext: true, PCRPID: 0x31,
					Streams: []ref.ES{{Type: 0x02, PID: 0x1ABC}, {Type: 0x81, PID: 0x1ABD, Descs: []ref.Desc{{Tag: 10, Body: []byte("zzz\x01")}}}}}
				otherPMT = parties.Packetise(ref.Payload(w.Salt%3, [][]byte{pm.Section()}, 0), parties.Carrier{PID: 0x1000 + w.Salt%7, CC: i, Sizes: []int{20, 184}, Styles: []string{"af", "ff"}})
				if c != nil {
					c.Probe("other_pmt_on_other_pid")
				}
			}
			out = append(out, otherPMT[0])
			otherPMT = otherPMT[1:]
		}
	}
	return out
}

type wireResult struct {
	pkts   []parties.Pkt // packets of the stream under test
	stream []byte
	from   []int
	endOf  []int // endOf[k] = byte offset in stream just after the k-th packet of the PID under test
	cum    []int // cum[k] = payload bytes carried by packets 0..k
}

func buildWire(w Wire, payload []byte, c *core.Ctx, prefix ...parties.Pkt) wireResult {
	var res wireResult
	res.pkts = parties.Packetise(payload, w.Carrier)
	main := append(append([]parties.Pkt(nil), prefix...), res.pkts...)
	seq, from := parties.Mux([][]parties.Pkt{main, foreignPkts(w, c)}, w.Picks)
	res.stream = parties.Flatten(seq)
	res.from = from
	pos, k := 0, 0
	skip := len(prefix)
	for i, q := range from {
		if q == 0 && skip > 0 {
			skip--
			continue
		}
		if q == 0 {
			n := 184
			if k < len(w.Carrier.Sizes) {
				n = w.Carrier.Sizes[k]
				if n < 1 {
					n = 1
				}
				if n > 184 {
					n = 184
				}
			}
			if n > len(payload)-pos {
				n = len(payload) - pos
			}
			pos += n
			res.cum = append(res.cum, pos)
			res.endOf = append(res.endOf, (i+1)*188)
			k++
		}
	}
	return res
}

func (c06) Exec(script interface{}, c *core.Ctx) {
	s := script.(*C06Script)
	pmtSec := s.PMT.Section()
	var secs [][]byte
	for _, f := range s.Before {
		secs = append(secs, f.Section())
	}
	secs = append(secs, pmtSec)
	ptr := s.Pointer
	if ptr < 0 {
		ptr = 0
	}
	if ptr > 255 {
		ptr = 255
	}
	pmin := ref.Payload(ptr, secs, 0)
	payload := ref.Payload(ptr, secs, s.Trailing)
	c.Log("c06 streams=%d sl=%d ptr=%d before=%d trailing=%d pid=%d", len(s.PMT.Streams), len(pmtSec)-3, ptr, len(s.Before), s.Trailing, s.Wire.Carrier.PID)
	c.Log("section %x", pmtSec)
	if ptr > 0 {
		c.Probe("pointer_gt0")
	}
	if ptr == 255 {
		c.Probe("pointer_255")
	}
	for _, f := range s.Before {
		if len(f.Body)+4 > 1021 {
			c.Probe("neighbour_section_longer_than_1021")
		}
	}
	if len(s.Before) > 0 {
		c.Probe("foreign_section_before")
	}
	if len(pmtSec)-3 >= 1000 {
		c.Probe("section_len_ge_1000")
	}
	if s.Trailing > 0 {
		c.Probe("trailing_stuffing")
	}
	if len(s.PMT.Streams) == 0 {
		c.Probe("zero_streams")
	}
	for _, e := range s.PMT.Streams {
		n := 0
		for _, d := range e.Descs {
			n += 2 + len(d.Body)
		}
		if n >= 256 {
			c.Probe("es_info_length_ge_256")
		}
		if len(e.Descs) > 255 {
			c.Probe("more_than_255_descriptors")
		}
		if e.Type == 0xFF && e.PID == 0x1FFF {
			c.Probe("entry_starts_with_ff_ff_ff")
		}
	}
	{
		n := 0
		for _, d := range s.PMT.ProgDescs {
			n += 2 + len(d.Body)
		}
		if n >= 256 {
			c.Probe("program_info_length_ge_256")
		}
	}
	// exempt boundaries: end of every section but the last
	exempt := map[int]bool{}
	{
		off := 1 + ptr
		for i := 0; i < len(secs)-1; i++ {
			off += len(secs[i])
			exempt[off] = true
		}
	}

	// --- PSI header accessors on the payload (first section)
	first := secs[0]
	okAcc := c.Call("psi header accessors", func() {
		cp := append([]byte(nil), payload...)
		if int(psi.PointerField(cp)) != ptr {
			c.Fail("accessors", "accessor:pointer_field", psi.PointerField(cp), ptr)
		} else if psi.TableID(cp) != first[0] {
			c.Fail("accessors", "accessor:table_id", psi.TableID(cp), first[0])
		} else if psi.SectionSyntaxIndicator(cp) != (first[1]&0x80 != 0) {
			c.Fail("accessors", "accessor:section_syntax_indicator", psi.SectionSyntaxIndicator(cp), first[1]&0x80 != 0)
		} else if psi.PrivateIndicator(cp) != (first[1]&0x40 != 0) {
			c.Fail("accessors", "accessor:private_indicator", psi.PrivateIndicator(cp), first[1]&0x40 != 0)
		} else if int(psi.SectionLength(cp)) != len(first)-3 {
			c.Fail("accessors", "accessor:section_length", psi.SectionLength(cp), len(first)-3)
		} else if !bytes.Equal(cp, payload) {
			c.Fail("accessors", "accessor:modified_input", "changed", "unchanged")
		}
	})
	if !okAcc || c.Failed() {
		return
	}
	if ptr == 0 {
		var crc uint32
		var err error
		if !c.Call("psi.ExtractCRC", func() { crc, err = psi.ExtractCRC(payload) }) {
			return
		}
		want := uint32(first[len(first)-4])<<24 | uint32(first[len(first)-3])<<16 | uint32(first[len(first)-2])<<8 | uint32(first[len(first)-1])
		if err != nil || crc != want {
			c.Fail("crc_accessor", "extract_crc", fmt.Sprint(crc, err), want)
			return
		}
	}
	// table header round trip and pointer field constructor
	{
		th := psi.TableHeader{TableID: uint8(s.TH[0]), SectionSyntaxIndicator: s.TH[1] != 0, PrivateIndicator: s.TH[2] != 0, SectionLength: uint16(s.TH[3] & 0xfff)} // section_length is a 12-bit field
		var back psi.TableHeader
		var err error
		var enc []byte
		if !c.Call("TableHeader round trip", func() { enc = th.Data(); back, err = psi.TableHeaderFromBytes(enc) }) {
			return
		}
		if err != nil || back != th {
			c.Fail("header_roundtrip", "table_header_roundtrip", fmt.Sprint(back, err), th)
			return
		}
		wantEnc := []byte{byte(s.TH[0]), 0x30 | byte(th.SectionLength>>8), byte(th.SectionLength)}
		if th.SectionSyntaxIndicator {
			wantEnc[1] |= 0x80
		}
		if th.PrivateIndicator {
			wantEnc[1] |= 0x40
		}
		if !bytes.Equal(enc, wantEnc) {
			c.Fail("header_roundtrip", "table_header_encoding", fmt.Sprintf("%x", enc), fmt.Sprintf("%x", wantEnc))
			return
		}
		// an encoding the caller keeps is the caller's: twenty further headers are encoded, and
		// the first one, and each of those, still reads what it read when it was returned
		{
			var kept [][]byte
			var want [][]byte
			okh := c.Call("TableHeader.Data (encodings kept by the caller)", func() {
				for k := 0; k < 20; k++ {
					h := psi.TableHeader{TableID: uint8(s.TH[0] + k), SectionSyntaxIndicator: k%2 == 0, PrivateIndicator: k%3 == 0, SectionLength: uint16((s.TH[3] + 37*k) & 0xfff)}
					e := h.Data()
					kept = append(kept, e)
					want = append(want, append([]byte(nil), e...))
				}
			})
			if !okh {
				return
			}
			if !bytes.Equal(enc, wantEnc) {
				c.Fail("header_roundtrip", "table_header_encoding_changed_by_later_encodings", fmt.Sprintf("%x", enc), fmt.Sprintf("%x", wantEnc))
				return
			}
			for k := range kept {
				if !bytes.Equal(kept[k], want[k]) {
					c.Fail("header_roundtrip", "table_header_encoding_changed_by_later_encodings", fmt.Sprintf("%x", kept[k]), fmt.Sprintf("%x", want[k]))
					return
				}
			}
		}
		var pf []byte
		if !c.Call("psi.NewPointerField", func() { pf = psi.NewPointerField(ptr) }) {
			return
		}
		if !bytes.Equal(pf, payload[:1+ptr]) {
			c.Fail("header_roundtrip", "new_pointer_field", fmt.Sprintf("%x", pf), fmt.Sprintf("%x", payload[:1+ptr]))
			return
		}
	}

	// --- NewPMT on the concatenated payload
	{
		var pm psi.PMT
		var err error
		cp := append([]byte(nil), payload...)
		if !c.Call("psi.NewPMT", func() { pm, err = psi.NewPMT(cp) }) {
			return
		}
		if err != nil {
			c.Fail("parse_payload", "newpmt:error", err, nil)
			return
		}
		if d := comparePMT(c, pm, s.PMT); d != "" {
			if d != "panic" {
				c.Fail("parse_payload", "newpmt:"+clauseOf(d), d, "the abstract PMT")
			}
			return
		}
		if !bytes.Equal(cp, payload) {
			c.Fail("parse_payload", "newpmt:modified_input", "changed", "unchanged")
			return
		}
		// the lists the getters hand out are the caller's to extend: appending to one stream's
		// descriptor list does not reach into another stream's
		var extra psi.PmtDescriptor
		okA := c.Call("append to every descriptor list handed out", func() {
			for _, es := range pm.ElementaryStreams() {
				if ds := es.Descriptors(); len(ds) > 0 && extra == nil {
					extra = ds[len(ds)-1]
				}
			}
			if extra == nil {
				return
			}
			for _, es := range pm.ElementaryStreams() {
				l := append(es.Descriptors(), extra)
				_ = l
			}
		})
		if !okA {
			return
		}
		if extra != nil {
			c.Probe("caller_appended_to_the_descriptor_lists")
			if d := comparePMT(c, pm, s.PMT); d != "" {
				if d != "panic" {
					c.Fail("parse_payload", "newpmt:after_caller_appended_to_descriptor_lists:"+clauseOf(d), d, "the abstract PMT")
				}
				return
			}
		}
	}

	// --- completion predicate on every prefix (crash points of the sender)
	{
		bad, badWant := -1, false
		okp := c.Call("psi.PmtAccumulatorDoneFunc", func() {
			for k := 0; k <= len(payload); k++ {
				if exempt[k] {
					c.Probe("exempt_boundary_prefix")
					continue
				}
				done, err := psi.PmtAccumulatorDoneFunc(payload[:k])
				want := k >= len(pmin)
				if err != nil || done != want {
					bad, badWant = k, want
					return
				}
			}
		})
		if !okp {
			return
		}
		c.Unit("prefixes_checked", int64(len(payload)+1-len(exempt)))
		if bad >= 0 {
			kind := "true_on_proper_prefix"
			if badWant {
				kind = "false_on_complete_payload"
			}
			where := "in_sections"
			switch {
			case bad <= ptr:
				where = "in_pointer_filler"
			case bad == 1+ptr:
				where = "at_section_start"
			case bad < 1+ptr+3:
				where = "in_first_section_header"
			}
			c.Fail("done_predicate", "predicate:"+kind+":"+where, fmt.Sprintf("prefix %d of %d -> %t", bad, len(pmin), !badWant), badWant)
			return
		}
	}

	// --- the stream
	var prelude []parties.Pkt
	for i, f := range s.Prelude {
		if f.TableID == 0x02 || f.TableID == 0xFF {
			f.TableID = 0x42
		}
		prelude = append(prelude, parties.Packetise(ref.Payload(i%3, [][]byte{f.Section()}, 0),
			parties.Carrier{PID: s.Wire.Carrier.PID, CC: i, Styles: []string{"ff", "ff", "ff", "ff"}})...)
		c.Probe("prelude_unit_on_pmt_pid")
	}
	w := buildWire(s.Wire, payload, c, prelude...)
	c.Unit("packets_on_wire", int64(len(w.stream)/188))
	c.Unit("stream_bytes", int64(len(w.stream)))
	c.Log("wire %x", w.stream)
	if len(w.pkts) >= 3 {
		c.Probe("multi_packet_ge3")
	}
	for i, q := range w.from {
		if q != 0 && i > 0 && i < len(w.from)-1 {
			// a foreign packet between two packets of the PMT PID?
			before, after := false, false
			for _, x := range w.from[:i] {
				before = before || x == 0
			}
			for _, x := range w.from[i+1:] {
				after = after || x == 0
			}
			if before && after {
				c.Probe("interleaved")
				break
			}
		}
	}
	needed := -1 // index of the PMT-PID packet that completes the payload
	exemptSplit := false
	secStart := 1 + ptr
	for _, f := range s.Before {
		secStart += len(f.Section())
	}
	for k, cu := range w.cum {
		if k < len(w.cum)-1 && exempt[cu] {
			exemptSplit = true
		}
		if needed < 0 && cu >= len(pmin) {
			needed = k
		}
		if k < len(w.cum)-1 {
			switch {
			case cu > secStart && cu < secStart+12:
				c.Probe("split_inside_header")
			case cu >= len(pmin)-4 && cu < len(pmin):
				c.Probe("split_before_crc")
			case cu > secStart+12 && cu < len(pmin)-4:
				c.Probe("split_inside_descriptor")
			}
		}
	}
	if len(w.cum) > 1 && w.cum[0] <= 3 {
		c.Probe("first_packet_payload_le3")
	}
	for k, p := range w.pkts {
		if p[3]&0x20 != 0 && p[4] == 0 && k >= 0 {
			c.Probe("af_len0_stuffing")
		}
	}
	if exemptSplit {
		c.Probe("exempt_boundary_split")
		return
	}
	stream := w.stream
	complete := true
	if s.Wire.CutAt > 0 && s.Wire.CutAt < len(stream) {
		stream = stream[:s.Wire.CutAt]
		c.Fault("stream_truncated")
		if needed < 0 || s.Wire.CutAt < w.endOf[needed] {
			complete = false
			c.Probe("truncated_before_end")
		}
	}
	sr := parties.NewSimReader(stream, s.Wire.Reads, c)
	sr.DefaultKind = s.Wire.Default
	var pm psi.PMT
	var err error
	var rd io.Reader = sr
	if s.Wire.Wrap > 0 && !parties.HasErrOps(s.Wire.Reads) {
		rd = bufio.NewReaderSize(sr, s.Wire.Wrap)
		c.Probe("reader_is_a_bufio_reader")
	}
	if !c.Call("psi.ReadPMT", func() { pm, err = psi.ReadPMT(rd, s.Wire.Carrier.PID) }) {
		return
	}
	c.Log("readpmt err=%v reads=%d pos=%d", err, sr.Calls, sr.Pos())
	if parties.IsReaderFault(err) {
		if sr.FirstErr == nil {
			c.Fail("reader_error", "stream:error_from_nowhere", err, nil)
		}
		return
	}
	if !complete {
		if err != gots.ErrPMTNotFound {
			c.Fail("not_found", "stream:truncated_stream_not_reported", fmt.Sprint(pm != nil, err), "ErrPMTNotFound")
		}
		return
	}
	if err != nil {
		sig := "stream:readpmt_error"
		if len(s.PMT.Streams) == 0 {
			// ReadPMT keeps looking when the decoded PMT lists no stream; it then either
			// runs into the end of the stream or into a continuation packet
			sig = "stream:zero_stream_pmt_skipped"
		}
		c.Fail("read_stream", sig, err, "the abstract PMT")
		return
	}
	if d := comparePMT(c, pm, s.PMT); d != "" {
		if d != "panic" {
			c.Fail("read_stream", "stream:"+clauseOf(d), d, "the abstract PMT")
		}
		return
	}
	// a PMT read from a stream must stay what it is when other streams are read later
	decoy := ref.PMTSpec{Program: 77, Version: 5, CurrentNext: true, PCRPID: 0x41,
		Streams: []ref.ES{{Type: 0x02, PID: 0x41, Descs: []ref.Desc{{Tag: 10, Body: []byte("spa\x03")}, {Tag: 14, Body: []byte{0xC0, 0x00, 0x4D}}}}, {Type: 0x04, PID: 0x42, Descs: []ref.Desc{{Tag: 82, Body: []byte{9}}}}}}
	for _, sizes := range [][]int{nil, {20, 30}} {
		dp := parties.Packetise(ref.Payload(0, [][]byte{decoy.Section()}, 0), parties.Carrier{PID: s.Wire.Carrier.PID, Sizes: sizes, Styles: []string{"ff", "ff", "ff"}})
		var dpm psi.PMT
		var derr error
		if !c.Call("psi.ReadPMT(decoy)", func() {
			dpm, derr = psi.ReadPMT(parties.NewSimReader(parties.Flatten(dp), nil, nil), s.Wire.Carrier.PID)
		}) {
			return
		}
		if derr != nil {
			c.Fail("read_stream", "stream:decoy_readpmt_error", derr, nil)
			return
		}
		if d := comparePMT(c, dpm, decoy); d != "" {
			if d != "panic" {
				c.Fail("read_stream", "stream:decoy:"+clauseOf(d), d, "the decoy PMT")
			}
			return
		}
	}
	// One reader, several tables (the way cli/parsefile.go and any multi-program caller reads a
	// stream): ReadPAT, ReadPMT of another program, then ReadPMT of this one, all on the same
	// reader - and the other order. The packets of this PMT follow immediately, once; a call
	// that takes more from the caller's reader than the packets of the table it returns loses them.
	if pid := s.Wire.Carrier.PID; s.Wire.Salt%3 == 1 && s.Wire.CutAt == 0 && !parties.HasErrOps(s.Wire.Reads) && pid > 0x1f && pid < 0x1FFF && len(s.PMT.Streams) > 0 {
		pid2 := 0x0F00
		if pid == pid2 {
			pid2 = 0x0F01
		}
		pat := ref.PATSpec{TSID: 1, Version: 3, Reserved: 7, Entries: []ref.PATEntry{{Program: 77, PID: pid2}, {Program: s.PMT.Program | 1<<15, PID: pid}}}
		var patPkt parties.Pkt
		patPkt[0], patPkt[1], patPkt[2], patPkt[3] = 0x47, 0x40, 0x00, 0x10
		pl := ref.Payload(0, [][]byte{pat.Section()}, 0)
		copy(patPkt[4:], pl)
		for k := 4 + len(pl); k < 188; k++ {
			patPkt[k] = 0xFF
		}
		var sizes []int
		if s.Wire.Salt%2 == 0 {
			sizes = []int{20, 30}
		}
		dp := parties.Flatten(parties.Packetise(ref.Payload(s.Wire.Salt%5, [][]byte{decoy.Section()}, 0), parties.Carrier{PID: pid2, Sizes: sizes, Styles: []string{"ff", "af", "ff"}}))
		for _, order := range []string{"other_first", "other_last"} {
			var st []byte
			st = append(st, patPkt[:]...)
			if order == "other_first" {
				st = append(append(st, dp...), w.stream...)
			} else {
				st = append(append(st, w.stream...), dp...)
			}
			sr2 := parties.NewSimReader(st, s.Wire.Reads, c)
			sr2.DefaultKind = s.Wire.Default
			var gotPAT psi.PAT
			var e error
			if !c.Call("psi.ReadPAT(same reader)", func() { gotPAT, e = psi.ReadPAT(sr2) }) {
				return
			}
			if e != nil || gotPAT == nil || gotPAT.ProgramMap()[77] != pid2 {
				c.Fail("read_stream", "stream:same_reader:pat", e, "the PAT in front")
				return
			}
			readOne := func(p int, want ref.PMTSpec, what string) bool {
				var got psi.PMT
				var e error
				if !c.Call("psi.ReadPMT(same reader, "+what+")", func() { got, e = psi.ReadPMT(sr2, p) }) {
					return false
				}
				if e != nil {
					c.Fail("read_stream", "stream:same_reader:"+order+":"+what+"_not_found", e, "the PMT that follows on the same reader")
					return false
				}
				if d := comparePMT(c, got, want); d != "" {
					if d != "panic" {
						c.Fail("read_stream", "stream:same_reader:"+order+":"+what+":"+clauseOf(d), d, "the abstract PMT")
					}
					return false
				}
				return true
			}
			if order == "other_first" {
				if !readOne(pid2, decoy, "other") || !readOne(pid, s.PMT, "this") {
					return
				}
			} else {
				if !readOne(pid, s.PMT, "this") || !readOne(pid2, decoy, "other") {
					return
				}
			}
		}
		c.Probe("pat_and_two_pmts_from_one_reader")
	}
	if s.Wire.Salt == 999 && len(w.pkts) > 0 {
		// the same PMT packets behind 70 000 generated packets of another PID
		far := 66000
		var tail []byte
		for i := range w.pkts {
			tail = append(tail, w.pkts[i][:]...)
		}
		gr := io.MultiReader(&nullGen{left: far}, bytes.NewReader(tail))
		var fpm psi.PMT
		var ferr error
		if !c.Call("psi.ReadPMT(long stream)", func() { fpm, ferr = psi.ReadPMT(gr, s.Wire.Carrier.PID) }) {
			return
		}
		c.Probe("pmt_after_70000_packets")
		if ferr != nil {
			c.Fail("read_stream", "stream:pmt_far_into_the_stream_not_found", ferr, nil)
			return
		}
		if d := comparePMT(c, fpm, s.PMT); d != "" {
			if d != "panic" {
				c.Fail("read_stream", "stream:long:"+clauseOf(d), d, "the abstract PMT")
			}
			return
		}
	}
	c.Probe("held_pmt_rechecked")
	if d := comparePMT(c, pm, s.PMT); d != "" {
		if d != "panic" {
			c.Fail("read_stream", "stream:held_pmt_changed:"+clauseOf(d), d, "the abstract PMT (unchanged by later reads)")
		}
		return
	}
}

// nullGen yields `left` null packets (PID 0x1FFF) without storing them.
type nullGen struct {
	left int
	cur  []byte
}

func (g *nullGen) Read(p []byte) (int, error) {
	if len(g.cur) == 0 {
		if g.left <= 0 {
			return 0, io.EOF
		}
		g.left--
		pk := parties.NullPacket(g.left)
		g.cur = pk[:]
	}
	k := copy(p, g.cur)
	g.cur = g.cur[k:]
	return k, nil
}

func clauseOf(d string) string {
	for i := 0; i < len(d); i++ {
		if d[i] == ':' {
			return d[:i]
		}
	}
	return d
}

func shrinkPMT(p ref.PMTSpec) []ref.PMTSpec {
	var out []ref.PMTSpec
	for _, keep := range core.DropChunks(len(p.Streams)) {
		q := p
		q.Streams = nil
		for _, i := range keep {
			q.Streams = append(q.Streams, p.Streams[i])
		}
		out = append(out, q)
	}
	if len(p.ProgDescs) > 0 {
		q := p
		q.ProgDescs = nil
		out = append(out, q)
	}
	for i, e := range p.Streams {
		if len(e.Descs) > 0 {
			q := p
			q.Streams = append([]ref.ES(nil), p.Streams...)
			q.Streams[i].Descs = nil
			out = append(out, q)
			if len(e.Descs) > 1 {
				for k := range e.Descs {
					q := p
					q.Streams = append([]ref.ES(nil), p.Streams...)
					q.Streams[i].Descs = append(append([]ref.Desc(nil), e.Descs[:k]...), e.Descs[k+1:]...)
					out = append(out, q)
				}
			}
		}
	}
	return out
}

func shrinkWire(w Wire) []Wire {
	var out []Wire
	cp := func() Wire {
		n := w
		n.Carrier.Sizes = append([]int(nil), w.Carrier.Sizes...)
		n.Carrier.Styles = append([]string(nil), w.Carrier.Styles...)
		n.Picks = append([]int(nil), w.Picks...)
		n.Reads = append([]parties.ReadOp(nil), w.Reads...)
		return n
	}
	if w.Foreign > 0 {
		n := cp()
		n.Foreign = 0
		out = append(out, n)
		n = cp()
		n.Foreign = w.Foreign / 2
		out = append(out, n)
	}
	if len(w.Picks) > 0 {
		n := cp()
		n.Picks = nil
		out = append(out, n)
	}
	if w.CutAt > 0 {
		n := cp()
		n.CutAt = 0
		out = append(out, n)
	}
	if w.Default != "" {
		n := cp()
		n.Default = ""
		out = append(out, n)
	}
	for _, ops := range parties.ShrinkReadOps(w.Reads) {
		n := cp()
		n.Reads = ops
		out = append(out, n)
	}
	if len(w.Carrier.Sizes) > 0 {
		n := cp()
		n.Carrier.Sizes, n.Carrier.Styles = nil, nil
		out = append(out, n)
		for _, keep := range core.DropChunks(len(w.Carrier.Sizes)) {
			if len(keep) == 0 {
				continue
			}
			n := cp()
			n.Carrier.Sizes, n.Carrier.Styles = nil, nil
			for _, i := range keep {
				n.Carrier.Sizes = append(n.Carrier.Sizes, w.Carrier.Sizes[i])
				if i < len(w.Carrier.Styles) {
					n.Carrier.Styles = append(n.Carrier.Styles, w.Carrier.Styles[i])
				}
			}
			out = append(out, n)
		}
		for i, sz := range w.Carrier.Sizes {
			if sz != 184 {
				n := cp()
				n.Carrier.Sizes[i] = 184
				out = append(out, n)
			}
		}
	}
	for i, st := range w.Carrier.Styles {
		if st != "af" {
			n := cp()
			n.Carrier.Styles[i] = "af"
			out = append(out, n)
		}
	}
	if w.Carrier.TP || w.Carrier.CC != 0 || w.Salt != 0 {
		n := cp()
		n.Carrier.TP, n.Carrier.CC, n.Salt = false, 0, 0
		out = append(out, n)
	}
	return out
}

func (c06) Shrink(script interface{}) []interface{} {
	s := script.(*C06Script)
	var out []interface{}
	for _, p := range shrinkPMT(s.PMT) {
		n := *s
		n.PMT = p
		out = append(out, &n)
	}
	if len(s.Before) > 0 {
		n := *s
		n.Before = nil
		out = append(out, &n)
		if len(s.Before) > 1 {
			n := *s
			n.Before = s.Before[:1]
			out = append(out, &n)
			n2 := *s
			n2.Before = s.Before[1:]
			out = append(out, &n2)
		}
	}
	for i, f := range s.Before {
		if len(f.Body) > 0 {
			n := *s
			n.Before = append([]ref.ForeignSection(nil), s.Before...)
			n.Before[i].Body = nil
			out = append(out, &n)
		}
	}
	if len(s.Prelude) > 0 {
		n := *s
		n.Prelude = nil
		out = append(out, &n)
	}
	if s.Pointer > 0 {
		n := *s
		n.Pointer = 0
		out = append(out, &n)
		n2 := *s
		n2.Pointer = s.Pointer / 2
		out = append(out, &n2)
	}
	if s.Trailing > 0 {
		n := *s
		n.Trailing = 0
		out = append(out, &n)
	}
	for _, w := range shrinkWire(s.Wire) {
		n := *s
		n.Wire = w
		out = append(out, &n)
	}
	return out
}
