package props

import (
	"bufio"
	"bytes"
	"errors"
	"fmt"
	"io"

	gots "github.com/Comcast/gots/v2"
	"github.com/Comcast/gots/v2/packet"

	"verif/sim/core"
	"verif/sim/parties"
)

// C16 - sync search over bufio.Reader (random size) / an exact scanner over a
// fragmenting, failing reader.

type C16Script struct {
	Stream  core.Hex         `json:"stream"`
	PreRead int              `json:"pre_read"` // bytes the caller consumed before calling Sync
	Scanner string           `json:"scanner"`  // "bufio" | "exact"
	BufSize int              `json:"buf_size"`
	Reads   []parties.ReadOp `json:"reads"`
	Default string           `json:"default_read,omitempty"` // outcome once Reads is used up ("" = full)
	// Again > 0: after a successful Sync the caller consumes Again bytes and calls Sync once
	// more; the offset is then counted from that new position
	Again int `json:"again,omitempty"`
	// Pad > 0: that many zero bytes precede Stream (generated on the fly, not stored):
	// search bounds and counters that only matter megabytes into a stream
	Pad int `json:"pad,omitempty"`
	// PadByte: the byte the pad consists of (0, or 0x47: millions of sync bytes, every one a
	// candidate that has to be rejected - 47 47 47 47 has adaptation_field_control 00)
	PadByte int `json:"pad_byte,omitempty"`
	// FailReadByte > 0 (exact scanner only): the scanner's FailReadByte-th ReadByte call fails
	// once with a transient error of the scanner's own, consuming nothing; the next one works
	FailReadByte int `json:"fail_read_byte,omitempty"`
}

type c16 struct{}

func init() { core.Register(c16{}) }

func (c16) ID() string       { return "C16" }
func (c16) New() interface{} { return &C16Script{} }
func (c16) Info() core.Info {
	return core.Info{
		Runs: map[string]int{"quick": 3000000, "thorough": 300000000},
		Rule: "Each run is one scripted byte stream (garbage built from a menu of false sync bytes: AFC=00, reserved PID 4..15, runs of 0x47, headers cut by end of stream; then 0..3 packets and a tail) read by packet.Sync through a real bufio.Reader of scripted size or a no-read-ahead PeekScanner, over a SimReader whose every Read outcome (full/short/one byte/zero/data+EOF/transient or hard error) is scripted; plus a complete sweep of false-sync kind x bufio size 16..64 x header position 0..80 under one-byte reads, of every header whose three bytes after the sync byte are printable ASCII (857 375 words) and, in the thorough tier, of all 2^24 headers at the front of a stream. Garbage may end on a short context (start code, CR LF, stuffing) right before the header; 1 in 6 valid headers is printable ASCII. Non-trivial = at least one reach probe fired (false sync skipped, header straddling a refill, sync byte in the last 3 bytes, not-found, reader fault fired). Added in waves 19-22: the no-read-ahead scanner fails one scripted ReadByte transiently and overwrites every peeked slice at the next read call; the source may stall for 100 empty reads in a row (where bufio gives up) and then carry on.",
		Real: []string{"packet.Sync", "packet.IsSynced", "bufio.Reader (stdlib)", "io.ReadFull/io.ReadAll (stdlib)"},
		Stub: []string{"SimReader (scripted io.Reader)", "exactScanner (harness PeekScanner without read-ahead)", "stream producer"},
		Assumptions: []string{
			"oracle is a reference scan written from the property statement (first i with s[i]=0x47, i+4<=len, AFC!=00, PID not in 4..15)",
			"an injected reader error delivered before the header's 4th byte may surface as that error; nothing else is relaxed",
		},
		RequiredProbes: []string{"false_sync_afc0", "false_sync_reserved_pid", "false_sync_then_true", "sync_in_last_3", "notfound", "found_at_0", "preread", "sync_again", "sync_after_failed_search", "long_prefix", "millions_of_rejected_sync_bytes"},
	}
}

func refSync(s []byte) int {
	for i := 0; i+4 <= len(s); i++ {
		if s[i] != 0x47 {
			continue
		}
		if s[i+3]&0x30 == 0 {
			continue
		}
		pid := int(s[i+1]&0x1f)<<8 | int(s[i+2])
		if pid >= 4 && pid <= 15 {
			continue
		}
		return i
	}
	return -1
}

func no47(b []byte) []byte {
	for i := range b {
		if b[i] == 0x47 {
			b[i] = 0x46
		}
	}
	return b
}

func validPacket(r *core.Rand) []byte {
	p := r.Bytes(188)
	p[0] = 0x47
	for {
		pid := int(p[1]&0x1f)<<8 | int(p[2])
		if pid < 4 || pid > 15 {
			break
		}
		p[2] = r.Byte()
	}
	p[3] = p[3]&^0x30 | byte(r.Range(1, 3))<<4
	if r.Bool() {
		no47(p[1:])
		p[3] = p[3]&^0x30 | byte(r.Range(1, 3))<<4
	}
	if r.Chance(1, 6) {
		// a header that reads as printable ASCII ("GET ", "GIF8", "Gzip"...): still a header
		for tries := 0; tries < 50; tries++ {
			b1, b2, b3 := byte(r.Range(0x20, 0x7E)), byte(r.Range(0x20, 0x7E)), byte(r.Range(0x20, 0x7E))
			pid := int(b1&0x1f)<<8 | int(b2)
			if b3&0x30 != 0 && (pid < 4 || pid > 15) {
				p[1], p[2], p[3] = b1, b2, b3
				break
			}
		}
	}
	return p
}

// contexts that an implementation might treat specially right before a sync byte
var c16Contexts = [][]byte{{0x00, 0x00, 0x01}, {0x00, 0x00, 0x00, 0x01}, {0x00, 0x00, 0x00}, {0xFF, 0xFF, 0xFF}, {0x0D, 0x0A, 0x0D, 0x0A}, {0x0A}, {0x00}, {0xFF}, {0x47, 0x1F, 0xFF}, {0xB8}, {0x00, 0x00, 0x01, 0xE0}, {0x00, 0x00, 0x01, 0xBA}}

func falseSync(r *core.Rand, kind int) []byte {
	switch kind {
	case 0: // AFC = 00
		return []byte{0x47, r.Byte() &^ 0x07, r.Byte() | 0x10, r.Byte() &^ 0x30}
	case 1: // reserved PID 4..15, AFC != 0
		return []byte{0x47, r.Byte() & 0xE0, byte(r.Range(4, 15)), r.Byte()&^0x30 | byte(r.Range(1, 3))<<4}
	case 2: // run of sync bytes
		return bytes.Repeat([]byte{0x47}, r.Range(1, 9))
	case 3: // boundary PIDs 3 and 16 with AFC=00 (still false) or a lone 0x47 followed by junk
		return []byte{0x47, 0x00, byte(r.Pick(3, 16)), r.Byte() &^ 0x30}
	default:
		return no47(r.Bytes(r.Range(1, 6)))
	}
}

func validPacketFixed() []byte {
	p := make([]byte, 188)
	p[0], p[1], p[2], p[3] = 0x47, 0x01, 0x23, 0x1A
	for k := 4; k < 188; k++ {
		p[k] = byte(k * 5)
	}
	return p
}

// zeros yields n equal bytes (zero unless b is set) without storing them.
type zeros struct {
	n int
	b byte
	c *core.Ctx
}

func (z *zeros) Read(p []byte) (int, error) {
	if z.n <= 0 {
		return 0, io.EOF
	}
	k := len(p)
	if k > z.n {
		k = z.n
	}
	for i := 0; i < k; i++ {
		p[i] = z.b
	}
	if z.c != nil && z.n>>20 != (z.n-k)>>20 {
		z.c.Tick() // data is moving: a search over tens of megabytes legitimately takes a while
	}
	z.n -= k
	return k, nil
}

// c16Long: the scripted stream preceded by Pad generated bytes.
func c16Long(s *C16Script, c *core.Ctx) {
	stream := []byte(s.Stream)
	// absolute offset of the first plausible header in pad+stream, -1 if none
	wantAbs := -1
	if w := refSync(stream); w >= 0 {
		wantAbs = s.Pad + w
	}
	if s.PadByte != 0 && s.Pad >= 3 {
		// the last three pad bytes can themselves start the first plausible header
		b := byte(s.PadByte)
		if w := refSync(append([]byte{b, b, b}, stream...)); w >= 0 {
			wantAbs = s.Pad - 3 + w
		}
		c.Probe("millions_of_rejected_sync_bytes")
	}
	c.Probe("long_prefix")
	c.Log("c16 long pad=%d len=%d want=%d", s.Pad, len(stream), wantAbs)
	c.Unit("stream_bytes", int64(s.Pad+len(stream)))
	br := bufio.NewReaderSize(io.MultiReader(&zeros{n: s.Pad, b: byte(s.PadByte), c: c}, bytes.NewReader(stream)), 4096)
	var off int64
	var err error
	if !c.Call("packet.Sync(long stream)", func() { off, err = packet.Sync(br) }) {
		return
	}
	if wantAbs < 0 {
		if err != gots.ErrSyncByteNotFound {
			c.Fail("notfound", "long:found_where_none_exists", fmt.Sprint(off, err), "ErrSyncByteNotFound")
		}
		return
	}
	if err != nil || off != int64(wantAbs) {
		c.Fail("offset", "long:header_far_into_the_stream_missed", fmt.Sprint(off, err), wantAbs)
		return
	}
	got, _ := io.ReadAll(br)
	var exp []byte
	if wantAbs >= s.Pad {
		exp = stream[wantAbs-s.Pad:]
	} else {
		exp = append(bytes.Repeat([]byte{byte(s.PadByte)}, s.Pad-wantAbs), stream...)
	}
	if !bytes.Equal(got, exp) {
		c.Fail("position", "long:reader_not_at_header", len(got), len(exp))
	}
}

func (c16) Gen(r *core.Rand, tier string) interface{} {
	s := &C16Script{}
	s.Scanner = r.PickS("bufio", "bufio", "bufio", "exact")
	s.BufSize = r.Pick(16, 16, 17, 20, 32, 64, 188, 189, 512, 4096, 8192)
	if r.Chance(1, 4) {
		s.BufSize = r.Range(16, 300)
	}
	var st []byte
	// garbage
	nPieces := r.Pick(0, 0, 1, 1, 2, 3, 5, 8)
	for i := 0; i < nPieces; i++ {
		if r.Chance(1, 3) {
			st = append(st, no47(r.Bytes(r.Range(1, 40)))...)
		}
		st = append(st, falseSync(r, r.Intn(5))...)
	}
	if r.Chance(1, 5) {
		// align the coming header against a refill boundary
		want := s.BufSize*r.Range(1, 3) - r.Intn(4)
		for len(st) < want {
			st = append(st, 0x00)
		}
	}
	if r.Chance(1, 6) && len(st) > 0 {
		no47(st) // a stream whose garbage has no sync byte at all
	}
	if r.Chance(1, 5) {
		// the bytes right before whatever follows: start codes, line ends, stuffing
		st = append(st, c16Contexts[r.Intn(len(c16Contexts))]...)
	}
	// packets
	switch r.Intn(10) {
	case 0: // nothing follows: not found (unless garbage happens to hold a header)
	case 1: // header cut by end of stream
		p := validPacket(r)
		st = append(st, p[:r.Range(1, 3)]...)
	case 2: // exactly a 4-byte header at the very end
		p := validPacket(r)
		st = append(st, p[:4]...)
	default:
		for k := r.Range(1, 3); k > 0; k-- {
			st = append(st, validPacket(r)...)
		}
		if r.Chance(1, 3) {
			st = append(st, validPacket(r)[:r.Range(1, 187)]...)
		}
	}
	if r.Chance(1, 8) {
		// sync byte in the last 1..3 bytes
		st = append(st, no47(r.Bytes(r.Range(0, 5)))...)
		st = append(st, 0x47)
		st = append(st, no47(r.Bytes(r.Range(0, 2)))...)
	}
	if len(st) > 1400 {
		st = st[:1400]
	}
	s.Stream = st
	if r.Chance(1, 5) && len(st) > 0 {
		s.PreRead = r.Range(1, min(len(st), 60))
	}
	style := r.PickS("full", "full", "frag", "one", "mixed", "mixed")
	if style == "one" {
		s.Default = "one"
	} else {
		s.Reads = parties.GenReadOps(r, r.Range(1, 24), style, false)
	}
	if r.Chance(1, 6) {
		s.Reads = parties.GenReadOps(r, r.Range(0, 12), r.PickS("frag", "mixed"), true)
	}
	if r.Chance(1, 4) {
		s.Again = r.Pick(1, 2, 4, 187, 188, 189, r.Range(1, 400))
	}
	if s.Scanner == "bufio" && r.Chance(1, 30) {
		// the source stalls once: 100 empty reads in a row, then it carries on
		k := r.Intn(len(s.Reads) + 1)
		s.Reads = append(s.Reads[:k:k], append([]parties.ReadOp{{Kind: "stall"}}, s.Reads[k:]...)...)
	}
	if s.Scanner == "exact" && r.Chance(1, 3) {
		s.FailReadByte = r.Range(1, 2*len(st)+2)
		if r.Chance(1, 2) {
			s.FailReadByte = r.Range(1, 12)
		}
	}
	if r.Chance(1, 3000) {
		s.Pad = r.Pick(70000, 1000000, 1900000, 2500000)
		if r.Chance(1, 3) {
			s.PadByte = 0x47
		}
		s.PreRead, s.Scanner, s.BufSize = 0, "bufio", 4096
	}
	return s
}

func min(a, b int) int {
	if a < b {
		return a
	}
	return b
}

// sweep: false-sync kind (4) x bufio size 16..64 (49) x header position 0..80 (81), one-byte reads
const c16Sweep = 4 * 49 * 81

// After the positional sweep: every header whose three bytes after the sync byte are printable
// ASCII (95^3 words such as "GET ", "GIF8", "Gzip"), and in the thorough tier every one of the
// 2^24 possible headers, at the front of a stream that continues with a plain packet. Whether
// a word is a header is decided by the statement's rule alone (PID not 4..15, AFC not 0).
const c16Printable = 95 * 95 * 95

func (c16) SweepSize(tier string) int {
	if tier == "thorough" {
		return c16Sweep + c16Printable + 1<<24 + 1
	}
	return c16Sweep + c16Printable + 1
}

func c16HeaderCase(b1, b2, b3 byte, lead int) *C16Script {
	st := make([]byte, 0, lead+2*188)
	for k := 0; k < lead; k++ {
		st = append(st, byte(0x10+k))
	}
	pkt := make([]byte, 188)
	pkt[0], pkt[1], pkt[2], pkt[3] = 0x47, b1, b2, b3
	for k := 4; k < 188; k++ {
		pkt[k] = byte(k) // never 0x47
	}
	st = append(st, pkt...)
	pkt2 := make([]byte, 188)
	copy(pkt2, pkt)
	pkt2[1], pkt2[2], pkt2[3] = 0x01, 0x00, 0x10
	st = append(st, pkt2...)
	return &C16Script{Stream: st, Scanner: "bufio", BufSize: 4096, Default: "full"}
}

func (c16) SweepCase(tier string, i int) interface{} {
	if i == (c16{}).SweepSize(tier)-1 {
		// 24 million sync bytes, each a candidate to reject, then a packet: whatever a search
		// keeps per rejected candidate (a stack frame, a list entry) shows at this size
		pkt := make([]byte, 188)
		pkt[0], pkt[1], pkt[2], pkt[3] = 0x47, 0x00, 0x00, 0x10 // (the three sync bytes before it give 47 47 47 47: rejected)
		for k := 4; k < 188; k++ {
			pkt[k] = byte(k)
		}
		return &C16Script{Stream: pkt, Scanner: "bufio", BufSize: 4096, Pad: 24000000, PadByte: 0x47}
	}
	if i >= c16Sweep+c16Printable {
		v := i - c16Sweep - c16Printable
		return c16HeaderCase(byte(v>>16), byte(v>>8), byte(v), v%3)
	}
	if i >= c16Sweep {
		v := i - c16Sweep
		return c16HeaderCase(byte(0x20+v%95), byte(0x20+v/95%95), byte(0x20+v/95/95), v%3)
	}
	kind := i % 4
	i /= 4
	buf := 16 + i%49
	i /= 49
	pos := i
	var fs []byte
	switch kind {
	case 0:
		fs = []byte{0x47, 0x00, 0x00, 0x00}
	case 1:
		fs = []byte{0x47, 0x00, 0x05, 0x10}
	case 2:
		fs = []byte{0x47, 0x47, 0x47}
	case 3:
		fs = nil
	}
	var st []byte
	if pos >= len(fs) {
		st = append(st, make([]byte, pos-len(fs))...)
		st = append(st, fs...)
	} else {
		st = append(st, make([]byte, pos)...)
	}
	pkt := make([]byte, 188)
	pkt[0], pkt[1], pkt[2], pkt[3] = 0x47, 0x00, 0x00, 0x10
	for k := 4; k < 188; k++ {
		pkt[k] = byte(k)
	}
	st = append(st, pkt...)
	return &C16Script{Stream: st, Scanner: "bufio", BufSize: buf, Default: "one"}
}

func (c16) Size(script interface{}) int {
	s := script.(*C16Script)
	return len(s.Stream) + len(s.Reads) + s.PreRead
}

// exactScanner is a PeekScanner that never reads more than Peek asks for.
type exactScanner struct {
	r       io.Reader
	pend    []byte
	last    int // last byte read, -1 if none / already unread
	pendErr error
	// failAt > 0: the failAt-th ReadByte call fails once (nothing consumed)
	failAt, readByteCalls int
	fired                 bool
	// the slice the last Peek returned: like bufio's, it stops being valid at the next read
	// call - this scanner makes that visible by overwriting it then
	lastPeek []byte
}

func (e *exactScanner) invalidate() {
	for i := range e.lastPeek {
		e.lastPeek[i] = 0x47 ^ byte(0xA5+i)
	}
	e.lastPeek = nil
}

var errScannerTransient = errors.New("sim: the scanner's ReadByte failed (transient, nothing consumed)")

func (e *exactScanner) fill(n int) error {
	for len(e.pend) < n {
		if e.pendErr != nil {
			err := e.pendErr
			e.pendErr = nil
			return err
		}
		buf := make([]byte, n-len(e.pend))
		m, err := e.r.Read(buf)
		e.pend = append(e.pend, buf[:m]...)
		if err != nil {
			if len(e.pend) >= n {
				e.pendErr = err
				return nil
			}
			return err
		}
	}
	return nil
}

func (e *exactScanner) ReadByte() (byte, error) {
	e.invalidate()
	e.readByteCalls++
	if e.failAt > 0 && e.readByteCalls == e.failAt {
		e.fired = true
		return 0, errScannerTransient
	}
	if err := e.fill(1); err != nil {
		return 0, err
	}
	b := e.pend[0]
	e.pend = e.pend[1:]
	e.last = int(b)
	return b, nil
}

func (e *exactScanner) UnreadByte() error {
	if e.last < 0 {
		return errors.New("exactScanner: nothing to unread")
	}
	e.pend = append([]byte{byte(e.last)}, e.pend...)
	e.last = -1
	return nil
}

func (e *exactScanner) Peek(n int) ([]byte, error) {
	err := e.fill(n)
	if err != nil {
		e.lastPeek = append([]byte(nil), e.pend...)
		return e.lastPeek, err
	}
	e.lastPeek = append([]byte(nil), e.pend[:n]...)
	return e.lastPeek, nil
}

func (e *exactScanner) Read(p []byte) (int, error) {
	e.invalidate()
	if len(e.pend) > 0 {
		n := copy(p, e.pend)
		e.pend = e.pend[n:]
		e.last = -1
		return n, nil
	}
	if e.pendErr != nil {
		err := e.pendErr
		e.pendErr = nil
		return 0, err
	}
	e.last = -1
	return e.r.Read(p)
}

func (c16) Exec(script interface{}, c *core.Ctx) {
	s := script.(*C16Script)
	stream := []byte(s.Stream)
	sr := parties.NewSimReader(stream, s.Reads, c)
	sr.DefaultKind = s.Default
	if s.Pad > 0 {
		c16Long(s, c)
		return
	}
	var ps packet.PeekScanner
	var rd io.Reader
	var es *exactScanner
	bs := s.BufSize
	if bs < 16 {
		bs = 16
	}
	if s.Scanner == "exact" {
		es = &exactScanner{r: sr, last: -1}
		ps, rd = es, es
	} else {
		br := bufio.NewReaderSize(sr, bs)
		ps, rd = br, br
	}
	pre := s.PreRead
	if pre > len(stream) {
		pre = len(stream)
	}
	if pre > 0 {
		sr.Benign = true
		io.ReadFull(rd, make([]byte, pre))
		sr.Benign = false
		c.Probe("preread")
	}
	rest := stream[pre:]
	want := refSync(rest)
	c.Log("c16 len=%d pre=%d scanner=%s buf=%d want=%d", len(stream), pre, s.Scanner, bs, want)
	c.Unit("stream_bytes", int64(len(stream)))

	// reach probes, from the reference scan
	for i := 0; i+4 <= len(rest) && (want < 0 || i < want); i++ {
		if rest[i] == 0x47 {
			if rest[i+3]&0x30 == 0 {
				c.Probe("false_sync_afc0")
			} else {
				c.Probe("false_sync_reserved_pid")
			}
			if want >= 0 {
				c.Probe("false_sync_then_true")
			}
		}
	}
	for i := len(rest) - 3; i < len(rest); i++ {
		if i >= 0 && rest[i] == 0x47 && (want < 0 || i > want) {
			c.Probe("sync_in_last_3")
		}
	}
	if want == 0 {
		c.Probe("found_at_0")
	}
	if want < 0 {
		c.Probe("notfound")
	}
	if want >= 0 && s.Scanner != "exact" {
		abs := pre + want
		if abs/bs != (abs+3)/bs {
			c.Probe("header_straddles_bufsize_multiple")
		}
	}

	var off int64
	var err error
	if es != nil && s.FailReadByte > 0 {
		es.failAt = s.FailReadByte
	}
	if !c.Call("packet.Sync", func() { off, err = packet.Sync(ps) }) {
		return
	}
	if es != nil {
		es.failAt = 0
		if es.fired {
			c.Probe("scanner_readbyte_failed_once")
			c.Fault("scanner_readbyte_transient")
		}
	}
	c.Log("sync off=%d err=%v reads=%d", off, err, sr.Calls)
	c.Unit("read_calls", int64(sr.Calls))

	switch {
	case err == nil:
		if want < 0 {
			c.Fail("notfound", "found_where_none_exists", off, "ErrSyncByteNotFound")
			return
		}
		if off != int64(want) {
			dir := "gt"
			if off < int64(want) {
				dir = "lt"
			}
			// is the reader nevertheless at the right byte?
			c.Fail("offset", "offset_"+dir+"_want", off, want)
			return
		}
	case err == errScannerTransient:
		// the scanner's own failure, handed through: legitimate whenever it really fired. (A
		// search that returns success after it must still report the right offset - above.)
		if es == nil || !es.fired {
			c.Fail("error_kind", "unexpected_error", err, want)
		}
		return
	case parties.IsReaderFault(err):
		// legitimate only if the failing Read began before the header's last byte had been delivered
		if sr.Stalled && errors.Is(err, io.ErrNoProgress) && sr.FirstErr == nil {
			// the buffering layer gave up on a source that stalled: its error, handed through
			c.Probe("source_stalled_for_100_reads")
			return
		}
		if sr.FirstErr == nil || (want >= 0 && sr.FirstErrAt >= pre+want+4) {
			c.Fail("reader_error", "injected_error_surfaced_needlessly", err, want)
			return
		}
		// a search that failed must not leave anything behind: an independent search on a
		// fresh reader counts from that reader's start
		fresh := append([]byte{0x11, 0x47, 0x00}, validPacketFixed()...)
		var off3 int64
		var err3 error
		if !c.Call("packet.Sync(fresh reader after failed search)", func() { off3, err3 = packet.Sync(bufio.NewReaderSize(bytes.NewReader(fresh), 64)) }) {
			return
		}
		c.Probe("sync_after_failed_search")
		if err3 != nil || off3 != 3 {
			c.Fail("offset", "offset_wrong_after_earlier_failed_search", fmt.Sprint(off3, err3), 3)
		}
		return
	case err == gots.ErrSyncByteNotFound:
		if want >= 0 {
			c.Fail("found", "missed_header", "ErrSyncByteNotFound", want)
		}
		return
	default:
		c.Fail("error_kind", "unexpected_error", err, want)
		return
	}
	// success: synced now, and the next read returns the packet
	var ok bool
	var ierr error
	sr.Benign = true
	if !c.Call("packet.IsSynced", func() { ok, ierr = packet.IsSynced(ps) }) {
		return
	}
	if !ok || ierr != nil {
		c.Fail("is_synced", "not_synced_after_sync", ierr, "true")
		return
	}
	// (only without injected read errors: the buffering layer may still hold one, and what a
	// second search does with a stored error is not the statement's subject)
	if s.Again > 0 && s.Again <= len(rest)-want && !parties.HasErrOps(s.Reads) {
		// consume Again bytes (they must be the packet's bytes), then search again
		buf := make([]byte, s.Again)
		n, _ := io.ReadFull(rd, buf)
		if n != s.Again || !bytes.Equal(buf, rest[want:want+s.Again]) {
			c.Fail("position", "reader_not_at_header", n, s.Again)
			return
		}
		rest2 := rest[want+s.Again:]
		want2 := refSync(rest2)
		c.Probe("sync_again")
		var off2 int64
		var err2 error
		if !c.Call("packet.Sync(again)", func() { off2, err2 = packet.Sync(ps) }) {
			return
		}
		c.Log("sync again off=%d err=%v want=%d", off2, err2, want2)
		switch {
		case want2 < 0:
			if err2 != gots.ErrSyncByteNotFound {
				c.Fail("notfound", "again:found_where_none_exists", fmt.Sprint(off2, err2), "ErrSyncByteNotFound")
			}
			return
		case err2 != nil || off2 != int64(want2):
			c.Fail("offset", "again:offset_counted_from_wrong_position", fmt.Sprint(off2, err2), want2)
			return
		}
		rest, want = rest2, want2
	}
	got := readRest(rd)
	if !bytes.Equal(got, rest[want:]) {
		c.Fail("position", "reader_not_at_header", len(got), len(rest)-want)
		return
	}
	c.Log("ok rest=%d", len(got))
	// and an unrelated search on another reader afterwards counts from that reader's start
	if len(stream)%3 == 0 {
		fresh := append([]byte{0x47, 0x00, 0x04, 0x10, 0x22}, validPacketFixed()...)
		var off4 int64
		var err4 error
		if !c.Call("packet.Sync(fresh reader after successful search)", func() { off4, err4 = packet.Sync(bufio.NewReaderSize(bytes.NewReader(fresh), 16)) }) {
			return
		}
		if err4 != nil || off4 != 5 {
			c.Fail("offset", "offset_wrong_after_earlier_successful_search", fmt.Sprint(off4, err4), 5)
		}
	}
}

// readRest drains a reader, stepping over injected errors that the buffering
// layer had already stored (the SimReader itself is benign by now).
func readRest(rd io.Reader) []byte {
	var out []byte
	buf := make([]byte, 512)
	for guard := 0; guard < 10000; guard++ {
		n, err := rd.Read(buf)
		out = append(out, buf[:n]...)
		if err != nil {
			if parties.IsReaderFault(err) {
				continue
			}
			break
		}
	}
	return out
}

func (c16) Shrink(script interface{}) []interface{} {
	s := script.(*C16Script)
	var out []interface{}
	cp := func() *C16Script {
		n := *s
		n.Stream = append(core.Hex(nil), s.Stream...)
		n.Reads = append([]parties.ReadOp(nil), s.Reads...)
		return &n
	}
	if s.PreRead > 0 {
		n := cp()
		n.PreRead = 0
		out = append(out, n)
		n = cp()
		n.Stream = n.Stream[s.PreRead:]
		n.PreRead = 0
		out = append(out, n)
	}
	if s.Again > 0 {
		n := cp()
		n.Again = 0
		out = append(out, n)
	}
	if s.Pad > 0 {
		n := cp()
		n.Pad = s.Pad / 2
		out = append(out, n)
	}
	if s.Scanner != "bufio" {
		n := cp()
		n.Scanner = "bufio"
		out = append(out, n)
	}
	if s.Default != "" {
		n := cp()
		n.Default = ""
		out = append(out, n)
	}
	if s.FailReadByte > 0 {
		n := cp()
		n.FailReadByte = 0
		out = append(out, n)
		if s.FailReadByte > 1 {
			n = cp()
			n.FailReadByte = s.FailReadByte - 1
			out = append(out, n)
		}
	}
	for _, ops := range parties.ShrinkReadOps(s.Reads) {
		n := cp()
		n.Reads = ops
		out = append(out, n)
	}
	// cut the stream: drop chunks
	for _, keep := range core.DropChunks(len(s.Stream)) {
		if len(s.Stream) > 64 && len(keep) > len(s.Stream)-8 {
			continue // single-byte removal only on short streams
		}
		n := cp()
		st := make([]byte, 0, len(keep))
		for _, i := range keep {
			st = append(st, s.Stream[i])
		}
		n.Stream = st
		out = append(out, n)
	}
	if len(s.Stream) <= 64 {
		for i, b := range s.Stream {
			if b != 0 && b != 0x47 {
				n := cp()
				n.Stream[i] = 0
				out = append(out, n)
			}
		}
	}
	if s.BufSize != 16 {
		n := cp()
		n.BufSize = 16
		out = append(out, n)
	}
	return out
}
