package props

import (
	"fmt"
	"strings"

	"github.com/Comcast/gots/v2/psi"

	"verif/sim/core"
	"verif/sim/ref"
)

// shared PMT workload generation and the comparison of a decoded PMT with
// the abstract one.

var streamTypes = []int{0x01, 0x02, 0x03, 0x04, 0x06, 0x0F, 0x11, 0x15, 0x1B, 0x24, 0x81, 0x86, 0x87, 0x88, 0xC0, 0xFF, 0x00}

// opaque tags: not decoded by any decoder the oracle calls
var opaqueTags = []int{0x02, 0x03, 0x09, 0x0B, 0x0C, 0x0D, 0x28, 0x97, 0x45, 0xA0, 0xFE, 0x00}

func genDesc(r *core.Rand) ref.Desc {
	switch r.Intn(9) {
	case 0: // maximum bitrate, value < 2^21, two reserved bits set
		v := r.Pick(0, 1, 0x1FFFFF, r.Intn(1<<21))
		return ref.Desc{Tag: 14, Body: []byte{0xC0 | byte(v>>16), byte(v >> 8), byte(v)}}
	case 1: // ISO 639 language
		return ref.Desc{Tag: 10, Body: []byte{byte('a' + r.Intn(26)), byte('a' + r.Intn(26)), byte('a' + r.Intn(26)), byte(r.Pick(0, 1, 2, 3, 0x80, 0x81))}}
	case 2: // registration
		if r.Bool() {
			return ref.Desc{Tag: 5, Body: append([]byte("DOVI"), r.Bytes(r.Intn(3))...)}
		}
		return ref.Desc{Tag: 5, Body: r.Bytes(r.Range(4, 8))}
	case 3: // Dolby Vision
		return ref.Desc{Tag: 0xB0, Body: r.Bytes(r.Range(4, 7))}
	case 4: // DVB extension: TTML subtitling
		return ref.Desc{Tag: 0x7F, Body: []byte{byte(r.Pick(0x20, 0x20, 0x21)), byte('a' + r.Intn(26)), byte('a' + r.Intn(26)), byte('a' + r.Intn(26)), byte(r.Intn(256)), byte(r.Intn(256))}}
	case 5: // stream identifier
		return ref.Desc{Tag: 82, Body: []byte{r.Byte()}}
	default:
		return ref.Desc{Tag: opaqueTags[r.Intn(len(opaqueTags))], Body: r.Bytes(r.Pick(0, 0, 1, 2, 5, 20, r.Intn(60)))}
	}
}

func genPMT(r *core.Rand, maxStreams int) ref.PMTSpec {
	p := ref.PMTSpec{Program: r.Pick(1, 2, 0xFFFF, r.Intn(65536)), Version: r.Intn(32), CurrentNext: r.Chance(3, 4), PCRPID: r.Pick(0x1FFF, 0x100, r.Intn(0x2000))}
	for i := r.Pick(0, 0, 0, 1, 2, 4); i > 0; i-- {
		p.ProgDescs = append(p.ProgDescs, genDesc(r))
	}
	n := r.Pick(0, 1, 1, 2, 2, 3, 4, 6, 12, 25, maxStreams)
	if n > maxStreams {
		n = maxStreams
	}
	used := map[int]bool{}
	for i := 0; i < n; i++ {
		e := ref.ES{Type: streamTypes[r.Intn(len(streamTypes))], PID: r.Pick(0x20+i, 0x100+i, 0x1FFE-i, r.Intn(0x2000))}
		for used[e.PID] { // elementary PIDs are distinct within one PMT
			e.PID = (e.PID + 1) & 0x1FFF
		}
		used[e.PID] = true
		for k := r.Pick(0, 0, 1, 1, 2, 3, 5); k > 0; k-- {
			e.Descs = append(e.Descs, genDesc(r))
		}
		p.Streams = append(p.Streams, e)
	}
	// descriptor loops of 256 bytes and more exercise the upper 4 bits of the 12-bit lengths
	fat := func() []ref.Desc {
		var ds []ref.Desc
		for total := 0; total < 256; {
			d := ref.Desc{Tag: opaqueTags[r.Intn(len(opaqueTags))], Body: r.Bytes(r.Pick(40, 100, 200, 255))}
			if r.Chance(1, 3) {
				d = genDesc(r)
			}
			ds = append(ds, d)
			total += 2 + len(d.Body)
		}
		return ds
	}
	if len(p.Streams) > 0 && r.Chance(1, 6) {
		i := r.Intn(len(p.Streams))
		p.Streams[i].Descs = append(p.Streams[i].Descs, fat()...)
	}
	if len(p.Streams) > 0 && r.Chance(1, 12) {
		// more than 255 descriptors on one stream (empty or one-byte bodies)
		i := r.Intn(len(p.Streams))
		p.Streams[i].Descs = nil
		for k := r.Pick(256, 257, 300, 400); k > 0; k-- {
			d := ref.Desc{Tag: opaqueTags[r.Intn(len(opaqueTags))]}
			if r.Chance(1, 8) {
				d.Body = r.Bytes(1)
			}
			p.Streams[i].Descs = append(p.Streams[i].Descs, d)
		}
	}
	if len(p.Streams) > 0 && r.Chance(1, 10) && !used[0x1FFF] {
		// an entry that is all ones in its first three bytes: user-private stream type on PID 0x1FFF
		i := r.Intn(len(p.Streams))
		used[p.Streams[i].PID] = false
		p.Streams[i].Type, p.Streams[i].PID = 0xFF, 0x1FFF
		used[0x1FFF] = true
	}
	if r.Chance(1, 10) {
		p.ProgDescs = append(p.ProgDescs, fat()...)
	}
	for p.SectionLength() > 1021 && len(p.Streams) > 1 {
		p.Streams = p.Streams[:len(p.Streams)-1]
	}
	for p.SectionLength() > 1021 && len(p.ProgDescs) > 0 {
		p.ProgDescs = p.ProgDescs[:len(p.ProgDescs)-1]
	}
	for p.SectionLength() > 1021 && len(p.Streams) > 0 {
		if n := len(p.Streams[0].Descs); n > 0 {
			p.Streams[0].Descs = p.Streams[0].Descs[:n-1]
		} else {
			p.Streams = p.Streams[1:]
		}
	}
	return p
}

func genForeignSection(r *core.Rand) ref.ForeignSection {
	tids := []int{0x00, 0x01, 0x03, 0x40, 0x42, 0x70, 0xC0, 0xFC, 0xFE}
	return ref.ForeignSection{TableID: tids[r.Intn(len(tids))], Syntax: r.Bool(), Private: r.Bool(), Body: r.Bytes(r.Pick(0, 1, 5, 9, 40, r.Intn(120)))}
}

// comparePMT checks a decoded PMT against the abstract one; it returns ""
// or a short description (clause:detail) of the first difference.
func comparePMT(c *core.Ctx, pm psi.PMT, want ref.PMTSpec) string {
	diff := ""
	ok := c.Call("pmt getters", func() {
		pids := pm.Pids()
		if len(pids) != len(want.Streams) {
			diff = fmt.Sprintf("pids:len got %d want %d", len(pids), len(want.Streams))
			return
		}
		for i, e := range want.Streams {
			if pids[i] != e.PID {
				diff = fmt.Sprintf("pids:[%d] got %d want %d", i, pids[i], e.PID)
				return
			}
		}
		if int(pm.VersionNumber()) != want.Version {
			diff = fmt.Sprintf("version:got %d want %d", pm.VersionNumber(), want.Version)
			return
		}
		if pm.CurrentNextIndicator() != want.CurrentNext {
			diff = fmt.Sprintf("current_next:got %t want %t", pm.CurrentNextIndicator(), want.CurrentNext)
			return
		}
		ess := pm.ElementaryStreams()
		if len(ess) != len(want.Streams) {
			diff = fmt.Sprintf("streams:len got %d want %d", len(ess), len(want.Streams))
			return
		}
		for i, e := range want.Streams {
			g := ess[i]
			if int(g.StreamType()) != e.Type || g.ElementaryPid() != e.PID {
				diff = fmt.Sprintf("streams:[%d] got type %#x pid %d want type %#x pid %d", i, g.StreamType(), g.ElementaryPid(), e.Type, e.PID)
				return
			}
			if !pm.PIDExists(e.PID) {
				diff = fmt.Sprintf("pid_exists:%d reported absent", e.PID)
				return
			}
			ds := g.Descriptors()
			if len(ds) != len(e.Descs) {
				diff = fmt.Sprintf("descriptors:stream %d has %d want %d", i, len(ds), len(e.Descs))
				return
			}
			var wantRate uint64
			rateSeen, ttml := false, false
			for k, wd := range e.Descs {
				d := ds[k]
				if int(d.Tag()) != wd.Tag {
					diff = fmt.Sprintf("descriptors:stream %d desc %d tag got %d want %d", i, k, d.Tag(), wd.Tag)
					return
				}
				b := wd.Body
				switch wd.Tag {
				case 14:
					v := uint32(b[0]&0x1f)<<16 | uint32(b[1])<<8 | uint32(b[2])
					if d.DecodeMaximumBitRate() != v {
						diff = fmt.Sprintf("descriptor_body:max_bitrate got %d want %d", d.DecodeMaximumBitRate(), v)
						return
					}
					if !rateSeen {
						rateSeen, wantRate = true, uint64(v)*50*8
					}
				case 10:
					if d.DecodeIso639LanguageCode() != string(b[:3]) || d.DecodeIso639AudioType() != b[3] {
						diff = fmt.Sprintf("descriptor_body:iso639 got %q/%d want %q/%d", d.DecodeIso639LanguageCode(), d.DecodeIso639AudioType(), b[:3], b[3])
						return
					}
				case 5:
					if d.IsDolbyVision() != (string(b[:4]) == "DOVI") {
						diff = "descriptor_body:dovi registration"
						return
					}
				case 0xB0:
					num := uint16(b[2])<<8 | uint16(b[3])
					// profile: 7 bits, level: 6 bits (the decoders are written for level < 32)
					w := fmt.Sprintf("dvhe.%02d.%02d", (num&0xFE00)>>9, (num&0x01F8)>>3)
					if num&0x0100 == 0 {
						if got := d.DecodeDolbyVisionCodec("x"); got != w {
							diff = fmt.Sprintf("descriptor_body:dolby vision got %s want %s", got, w)
							return
						}
					}
				case 0x7F:
					if d.IsTTMLDescTagExtension() != (b[0] == 0x20) || d.DecodeTTMLIso639LanguageCode() != string(b[1:4]) || d.DecodeTTMLSubtitlePurpose() != b[4]>>2 {
						diff = "descriptor_body:ttml"
						return
					}
					if b[0] == 0x20 {
						ttml = true
					}
				case 82:
					if s := fmt.Sprint(d); !strings.HasSuffix(s, fmt.Sprintf(": %d", b[0])) {
						diff = fmt.Sprintf("descriptor_body:stream identifier got %q want %d", s, b[0])
						return
					}
				}
			}
			if g.MaxBitRate() != wantRate {
				diff = fmt.Sprintf("descriptor_body:stream MaxBitRate got %d want %d", g.MaxBitRate(), wantRate)
				return
			}
			if g.IsTTMLSubtitling() != ttml {
				diff = "descriptor_body:IsTTMLSubtitling"
				return
			}
		}
	})
	if !ok {
		return "panic"
	}
	return diff
}
