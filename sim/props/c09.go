package props

import (
	"bytes"
	"fmt"

	gots "github.com/Comcast/gots/v2"
	"github.com/Comcast/gots/v2/scte35"

	"verif/sim/core"
	"verif/sim/ref"
)

// C09 - the SCTE-35 encoder under any history of setter calls.
//
// A signal is a small graph of mutable objects (the signal, its splice command, its
// segmentation descriptors) that callers build and edit through ~60 setters, in any order,
// with a cached encoding (Data()) that is only refreshed by UpdateData(). The simulated
// party is the caller: a scripted history of setter calls on a pool of command and
// descriptor objects, attaching and detaching them, encoding at arbitrary points, and
// decoding what was encoded. The oracle is a logical model of the field values set so far,
// serialised by a reference serialiser written from SCTE 35.

type C09Op struct {
	Obj   string        `json:"obj"` // sc | c0 (null) c1 (time) c2 (insert) cS (decoded) | d0..d2, dS0.. (decoded)
	Op    string        `json:"op"`
	B     bool          `json:"b,omitempty"`
	U     uint64        `json:"u,omitempty"`
	Data  core.Hex      `json:"data,omitempty"`
	List  []string      `json:"list,omitempty"`
	MID   []ref.UPID    `json:"mid,omitempty"`
	Comps []ref.SegComp `json:"comps,omitempty"`
}

type C09Script struct {
	// Decode: start from the decoded form of this canonical section instead of CreateSCTE35()
	Decode *ref.Section `json:"decode,omitempty"`
	// LegacyLen: the section handed to the decoder carries splice_command_length 0xFFF (the
	// "not specified" value older encoders wrote); re-encoding writes the real length
	LegacyLen bool    `json:"legacy_command_length,omitempty"`
	Ops       []C09Op `json:"ops"`
}

type c09 struct{}

func init() { core.Register(c09{}) }

func (c09) ID() string       { return "C09" }
func (c09) New() interface{} { return &C09Script{} }
func (c09) Info() core.Info {
	return core.Info{
		Runs: map[string]int{"quick": 2000000, "thorough": 200000000},
		Rule: "Each run is a scripted caller history over a graph of mutable objects: one signal (created empty, or decoded from a reference-serialised canonical section with splice_null / time_signal / splice_insert, 0..3 segmentation descriptors and foreign descriptors), a pool of three command objects (null, time_signal, splice_insert) and three segmentation descriptors built through the creation API. The history (<=40 steps) calls every setter of the signal, the commands and the descriptors in any order (flags set and cleared, values at and beyond the field widths, UPID / multiple-UPID changes incl. the documented no-effect combinations, component lists), attaches and replaces commands and descriptor lists, and encodes at arbitrary points. After every step every getter of every object is compared with a logical model and Data() must still be the bytes of the last encoding; at every encoding the bytes are compared with the reference serialisation of the model (SCTE 35 syntax tables; pts_adjustment is only compared when the command carries a time), the CRC of the whole section must be zero, a second UpdateData must return the same bytes, the bytes are decoded again and every visible field compared, and the decoded signal is re-encoded and must reproduce the bytes. Plus a complete sweep of all histories of length <=4 (quick) / <=5 (thorough) over an 18-letter alphabet of the calls whose interplay decides the encoding. Non-trivial = at least one reach probe fired. Added in waves 19-22: own MID entries handed back reordered; the caller overwrites what Data() of a command / descriptor returned; SetDescriptors(append(Descriptors(), d)) interleaved on several created signals; a descriptor lent to another signal; a damaged section decoded first; argument objects changed after SetComponents / SetMID; the buffer the signal was decoded from must stay untouched by every later call.",
		Real: []string{"scte35.CreateSCTE35 / CreateSpliceNull / CreateTimeSignalCommand / CreateSpliceInsertCommand / CreateSegmentationDescriptor / CreateUPID / CreateComponentOffset", "every Set* of SCTE35, SpliceCommand, SpliceInsertCommand, SegmentationDescriptor", "SCTE35.UpdateData / Data", "SpliceCommand.Data / SegmentationDescriptor.Data", "scte35.NewSCTE35 (decode of the encoded bytes)", "all getters"},
		Stub: []string{"the caller (scripted history)", "reference serialiser + CRC (ref.Section)", "logical model of the object graph"},
		Assumptions: []string{
			"the signal's PTS is one settable value (SetPTS, SetAdjustPTS) and the command's pts_time another (SetPTS on the signal or the command); pts_adjustment is their difference mod 2^33 and is compared only when the encoded command carries a time",
			"documented no-effect combinations are taken as documented: SetUPID while the type is the multiple-UPID type, SetMID while it is not, SetPTS/SetHasPTS on a splice_null",
			"UPID type and value are set together (SetUPIDType then SetUPID / SetMID); what a lone SetUPIDType leaves of the previous value is not compared",
			"sub-segment fields are compared only for types 0x34 / 0x36; what SetTypeID to another type does to the flag is not compared until the flag is set again",
			"fields the encoding does not carry (restriction flags under delivery_not_restricted, duration without its flag, everything behind a cancel indicator) are not compared after decoding",
			"values beyond a field's width are truncated to the width, in the getter as in the encoding",
			"a time_signal, or a program-mode non-immediate splice_insert, whose splice_time specifies no time is encoded but not decoded by the library (it documents them as unsupported commands): the decode step is skipped for them",
			"sections with alignment stuffing are not 'canonical': re-encoding their decoded form need not reproduce the stuffing",
			"on a decoded signal with foreign descriptors the descriptor list is not replaced (where foreign descriptors would go is not defined); their order relative to segmentation descriptors must be kept",
		},
		RequiredProbes: []string{"encoded", "decoded_again", "reencoded_identical", "start_from_decoded", "flag_cleared_after_set", "value_beyond_field_width", "insert_cancelled", "insert_component_mode", "insert_with_duration", "descriptor_cancelled", "descriptor_components", "mid_set", "upid_set", "sub_segments", "command_replaced", "descriptors_replaced", "foreign_descriptor", "pts_adjustment_nonzero", "pts_adjustment_wraps", "data_unchanged_between_encodings", "no_effect_call", "three_descriptors", "component_edited_through_getter_object", "upid_of_a_mid_edited_through_getter_object", "sub_segment_flag_on_type_0x38_or_0x3A", "command_of_256_bytes_or_more", "pts_adjustment_on_a_command_without_time", "decoded_section_with_command_length_0xFFF", "own_components_handed_back_reordered", "encryption_algorithm_bits_set", "own_mid_entries_handed_back_in_another_order"},
	}
}

// ---------------------------------------------------------------------------
// generator

var c09Types = []int{0x10, 0x11, 0x20, 0x22, 0x30, 0x34, 0x34, 0x35, 0x36, 0x36, 0x37, 0x38, 0x3A, 0x40, 0x50, 0x00, 0x01, 0xFF}

func c09U33(r *core.Rand) uint64 {
	return r.Pick64(0, 1, 90000, 1<<32, 1<<33-1, 1<<33-90000, r.U64()&(1<<33-1), r.U64()&(1<<33-1))
}

func c09GenUPID(r *core.Rand) ref.UPID {
	return ref.UPID{Type: r.Pick(0x01, 0x08, 0x09, 0x0C, 0x0E, 0x0F, 0x10), Data: core.Hex(r.Bytes(r.Pick(0, 1, 4, 8, 12, 30)))}
}

func c09GenSeg(r *core.Rand) ref.SegDesc {
	d := ref.SegDesc{Event: uint32(r.Pick64(0, 1, 0xFFFFFFFF, r.U64()&0xFFFFFFFF)), Type: c09Types[r.Intn(len(c09Types))]}
	if r.Chance(1, 8) {
		d.Cancel = true
		d.Type = 0
		return d
	}
	d.Program = r.Chance(3, 4)
	d.HasDur = r.Bool()
	if d.HasDur {
		d.Dur = r.Pick64(0, 1, 1<<33, 1<<40-1, r.U64()&(1<<40-1))
	}
	d.NotRestricted = r.Bool()
	if !d.NotRestricted {
		d.Web, d.NoBlackout, d.Archive, d.Device = r.Bool(), r.Bool(), r.Bool(), r.Intn(4)
	}
	if !d.Program {
		for i := r.Pick(0, 1, 2, 5); i > 0; i-- {
			d.Comps = append(d.Comps, ref.SegComp{Tag: r.Intn(256), Off: c09U33(r)})
		}
	}
	switch r.Intn(4) {
	case 0:
	case 1, 2:
		u := c09GenUPID(r)
		d.UPIDType, d.UPID = u.Type, u.Data
	case 3:
		d.UPIDType = 0x0D
		for i := r.Pick(0, 1, 2, 3); i > 0; i-- {
			d.MID = append(d.MID, c09GenUPID(r))
		}
	}
	d.SegNum, d.SegExp = r.Pick(0, 1, 2, 255), r.Pick(0, 1, 2, 255)
	if (d.Type == 0x34 || d.Type == 0x36) && r.Bool() {
		d.HasSub, d.SubNum, d.SubExp = true, r.Pick(0, 1, 255), r.Pick(0, 2, 255)
	}
	return d
}

func c09GenCmd(r *core.Rand) ref.Cmd {
	switch r.Intn(5) {
	case 0:
		return ref.Cmd{Kind: "null"}
	case 1, 2:
		return ref.Cmd{Kind: "time", Time: ref.SpliceTime{Has: r.Chance(4, 5), PTS: c09U33(r)}}
	}
	c := ref.Cmd{Kind: "insert", Event: uint32(r.U64()), Program: true}
	if r.Chance(1, 6) {
		c.Cancel = true
		c.Program = false
		return c
	}
	c.Out, c.HasDur, c.Immediate = r.Bool(), r.Bool(), r.Chance(1, 3)
	c.Program = r.Chance(3, 4)
	if c.Program && !c.Immediate {
		c.Time = ref.SpliceTime{Has: true, PTS: c09U33(r)}
	}
	if !c.Program {
		for i := r.Pick(0, 1, 2, 4, 4, 40, 41, 42, 100, 255); i > 0; i-- {
			k := ref.InsertComp{Tag: r.Intn(256)}
			if !c.Immediate {
				k.Time = ref.SpliceTime{Has: r.Chance(3, 4), PTS: c09U33(r)}
				if !k.Time.Has {
					k.Time.PTS = 0
				}
			}
			c.Comps = append(c.Comps, k)
		}
	}
	if c.HasDur {
		c.Auto, c.Dur = r.Bool(), c09U33(r)
	}
	c.UPI, c.Avail, c.Avails = r.Intn(65536), r.Intn(256), r.Intn(256)
	return c
}

func c09GenSection(r *core.Rand) *ref.Section {
	s := &ref.Section{Tier: r.Pick(0xFFF, 0, 1, r.Intn(0x1000)), CW: r.Pick(0, 0, 0xFF, r.Intn(256)), Cmd: c09GenCmd(r)}
	// pts_adjustment is a field of every section, whatever the command (a re-stamping device
	// adds its offset to splice_nulls and immediate splices too)
	s.Adjust = r.Pick64(0, 0, 1, 1<<33-1, c09U33(r))
	if r.Chance(1, 8) {
		s.EncAlg = r.Pick(1, 2, 0x3F, r.Intn(64)) // clear packet, but the 6 algorithm bits are not 0
	}
	n := r.Pick(0, 1, 1, 2, 3)
	foreign := r.Chance(1, 3)
	for i := 0; i < n; i++ {
		for k := 0; foreign && k < 3 && r.Chance(1, 2); k++ { // runs of foreign descriptors too
			s.Items = append(s.Items, ref.SpliceItem{Foreign: c09Foreign(r)})
		}
		d := c09GenSeg(r)
		s.Items = append(s.Items, ref.SpliceItem{Seg: &d})
	}
	if foreign && (n == 0 || r.Bool()) {
		s.Items = append(s.Items, ref.SpliceItem{Foreign: c09Foreign(r)})
	}
	return s
}

func c09Foreign(r *core.Rand) core.Hex {
	switch r.Intn(3) {
	case 0: // avail_descriptor
		return core.Hex(append([]byte{0x00, 0x08, 'C', 'U', 'E', 'I'}, r.Bytes(4)...))
	case 1: // DTMF_descriptor
		return core.Hex([]byte{0x01, 0x08, 'C', 'U', 'E', 'I', 0x05, 0x5F, '1', '2'})
	}
	body := r.Bytes(r.Pick(4, 6, 20))
	copy(body, "CUEI")
	return core.Hex(append([]byte{byte(r.Pick(0x03, 0x04, 0x80, 0xFF)), byte(len(body))}, body...))
}

func (c09) Gen(r *core.Rand, tier string) interface{} {
	s := &C09Script{}
	cmds := []string{"c0", "c1", "c2"}
	descs := []string{"d0", "d1", "d2"}
	if r.Chance(2, 5) {
		s.Decode = c09GenSection(r)
		s.LegacyLen = r.Chance(1, 6)
		cmds = append(cmds, "cS")
		k := 0
		for _, it := range s.Decode.Items {
			if it.Seg != nil {
				descs = append(descs, fmt.Sprintf("dS%d", k))
				k++
			}
		}
	}
	n := r.Pick(1, 2, 3, 5, 8, 12, 20, 40)
	if tier == "thorough" && r.Chance(1, 10) {
		n = r.Pick(80, 150)
	}
	for i := 0; i < n; i++ {
		var op C09Op
		switch r.Intn(20) {
		case 0, 1, 2, 3:
			op = C09Op{Obj: "sc", Op: "encode"}
		case 4:
			op = C09Op{Obj: "sc", Op: r.PickS("tier", "stuffing", "tier"), U: uint64(r.Pick(0, 1, 5, 0xFFF, 0x1000, 0xFFFF))}
			if op.Op == "stuffing" {
				op.U = uint64(r.Pick(0, 0, 1, 3, 8))
			}
		case 5, 6:
			op = C09Op{Obj: "sc", Op: r.PickS("pts", "adjust_pts", "adjust_pts"), U: r.Pick64(c09U33(r), c09U33(r), c09U33(r), 1<<33, 1<<40+5)}
		case 7:
			op = C09Op{Obj: "sc", Op: "has_pts", B: r.Bool()}
		case 8:
			op = C09Op{Obj: "sc", Op: "set_cmd", List: []string{cmds[r.Intn(len(cmds))]}}
		case 9, 10:
			op = C09Op{Obj: "sc", Op: "set_descs"}
			for _, k := range r.Perm(len(descs)) {
				if len(op.List) < 3 && r.Bool() {
					op.List = append(op.List, descs[k])
				}
			}
		case 11, 12, 13:
			c := cmds[r.Intn(len(cmds))]
			op = C09Op{Obj: c}
			switch r.Intn(15) {
			case 0, 1:
				op.Op, op.B = "has_pts", r.Bool()
			case 2, 3:
				op.Op, op.U = "pts", r.Pick64(c09U33(r), c09U33(r), 1<<33+7)
			case 4:
				op.Op, op.U = "event", r.U64()&0xFFFFFFFF
			case 5:
				op.Op, op.B = "cancel", r.Chance(1, 3)
			case 6:
				op.Op, op.B = "out", r.Bool()
			case 7:
				op.Op, op.B = "program", r.Bool()
			case 8:
				op.Op, op.B = "has_dur", r.Bool()
			case 9:
				op.Op, op.B = "immediate", r.Bool()
			case 10:
				op.Op, op.B = "auto", r.Bool()
			case 11:
				op.Op, op.U = "dur", r.Pick64(c09U33(r), 1<<33, 1<<34+3)
			case 12:
				op.Op, op.U = r.PickS("upi", "avail", "avails"), uint64(r.Pick(0, 1, 255, 256, 65535))
			case 13:
				op.Op, op.U, op.B = "icomp_edit", uint64(r.Intn(5)), r.Bool()
				op.Comps = []ref.SegComp{{Tag: r.Intn(256), Off: r.Pick64(c09U33(r), 1<<33+4)}}
			default:
				op.Op, op.B = "has_pts", true
			}
		default:
			d := descs[r.Intn(len(descs))]
			op = C09Op{Obj: d}
			switch r.Intn(21) {
			case 0:
				op.Op, op.U = "event", r.U64()&0xFFFFFFFF
			case 1:
				op.Op, op.B = "cancel", r.Chance(1, 3)
			case 2:
				op.Op, op.B = "program", r.Bool()
			case 3:
				op.Op, op.B = "has_dur", r.Bool()
			case 4:
				op.Op, op.U = "dur", r.Pick64(0, 1, 1<<33, 1<<40-1, 1<<40, 1<<41+9, r.U64()&(1<<40-1))
			case 5:
				op.Op, op.B = "not_restricted", r.Bool()
			case 6:
				op.Op, op.B = r.PickS("web", "no_blackout", "archive"), r.Bool()
			case 7:
				op.Op, op.U = "device", uint64(r.Intn(4))
			case 8:
				op.Op = "comps"
				for k := r.Pick(0, 1, 2, 4); k > 0; k-- {
					op.Comps = append(op.Comps, ref.SegComp{Tag: r.Intn(256), Off: r.Pick64(c09U33(r), c09U33(r), 1<<33+1)})
				}
			case 9, 10:
				u := c09GenUPID(r)
				op.Op, op.U, op.Data = "upid", uint64(u.Type), u.Data
			case 11:
				op.Op, op.Data = "upid_data", core.Hex(r.Bytes(r.Pick(0, 3, 9)))
			case 12:
				op.Op = "upid_none"
			case 13, 14:
				op.Op = "mid"
				for k := r.Pick(0, 1, 2, 3); k > 0; k-- {
					op.MID = append(op.MID, c09GenUPID(r))
				}
			case 15:
				op.Op = "mid_lone"
				op.MID = []ref.UPID{c09GenUPID(r)}
			case 16:
				op.Op, op.U = "type", uint64(c09Types[r.Intn(len(c09Types))])
			case 17:
				op.Op, op.U = r.PickS("seg_num", "seg_exp"), uint64(r.Pick(0, 1, 2, 255))
			case 18:
				op.Op, op.B = "has_sub", r.Bool()
			case 19:
				// through the objects the getters hand out
				if r.Chance(1, 3) {
					op.Op = "comps_reorder" // hand the descriptor its own components back, reversed
				} else if r.Chance(1, 3) {
					// hand the descriptor its own MID entries back: reversed / rotated / behind a new one
					op.Op, op.U = "mid_reorder", uint64(r.Intn(3))
					op.MID = []ref.UPID{c09GenUPID(r)}
				} else if r.Bool() {
					op.Op, op.U = "comp_edit", uint64(r.Intn(4))
					op.Comps = []ref.SegComp{{Tag: r.Intn(256), Off: r.Pick64(c09U33(r), 1<<33+2)}}
				} else {
					op.Op, op.U = "mid_edit", uint64(r.Intn(3))
					op.MID = []ref.UPID{c09GenUPID(r)}
				}
			default:
				op.Op, op.U = r.PickS("sub_num", "sub_exp"), uint64(r.Pick(0, 1, 255))
			}
		}
		if op.Obj != "sc" && op.Obj != "" && r.Chance(1, 14) {
			op = C09Op{Obj: op.Obj, Op: "scribble"}
		}
		if op.Obj == "sc" && op.Op == "set_descs" && r.Chance(1, 4) {
			op = C09Op{Obj: "sc", Op: r.PickS("append_desc", "append_desc", "lend_desc"), List: []string{descs[r.Intn(len(descs))]}}
		}
		s.Ops = append(s.Ops, op)
	}
	s.Ops = append(s.Ops, C09Op{Obj: "sc", Op: "encode"})
	return s
}

// sweep alphabet: the calls whose interplay decides what is encoded, on fixed values
var c09Alpha = []C09Op{
	{Obj: "sc", Op: "set_cmd", List: []string{"c1"}},
	{Obj: "sc", Op: "set_cmd", List: []string{"c2"}},
	{Obj: "sc", Op: "has_pts", B: true},
	{Obj: "sc", Op: "has_pts", B: false},
	{Obj: "sc", Op: "pts", U: 1<<33 - 1},
	{Obj: "sc", Op: "adjust_pts", U: 5},
	{Obj: "c1", Op: "pts", U: 90000},
	{Obj: "c2", Op: "has_pts", B: true},
	{Obj: "c2", Op: "program", B: false},
	{Obj: "c2", Op: "immediate", B: true},
	{Obj: "c2", Op: "cancel", B: true},
	{Obj: "c2", Op: "has_dur", B: true},
	{Obj: "sc", Op: "encode"},
	{Obj: "sc", Op: "set_descs", List: []string{"d0", "d1"}},
	{Obj: "d0", Op: "cancel", B: true},
	{Obj: "d1", Op: "type", U: 0x34},
	{Obj: "d1", Op: "has_sub", B: true},
	{Obj: "d1", Op: "mid", MID: []ref.UPID{{Type: 8, Data: core.Hex{1, 2}}, {Type: 0x0C, Data: core.Hex{3}}}},
}

func c09SweepLen(tier string) int {
	if tier == "thorough" {
		return 5
	}
	return 4
}

func (c09) SweepSize(tier string) int {
	n, p := 0, 1
	for l := 1; l <= c09SweepLen(tier); l++ {
		p *= len(c09Alpha)
		n += p
	}
	return n
}

func (c09) SweepCase(tier string, i int) interface{} {
	l, p := 1, len(c09Alpha)
	for i >= p {
		i -= p
		l++
		p *= len(c09Alpha)
	}
	s := &C09Script{}
	for k := 0; k < l; k++ {
		s.Ops = append(s.Ops, c09Alpha[i%len(c09Alpha)])
		i /= len(c09Alpha)
	}
	s.Ops = append(s.Ops, C09Op{Obj: "sc", Op: "encode"})
	return s
}
func (c09) Size(script interface{}) int {
	s := script.(*C09Script)
	n := len(s.Ops) * 2
	if s.Decode != nil {
		n += 3 + 4*len(s.Decode.Items)
	}
	for _, o := range s.Ops {
		n += len(o.List) + len(o.MID) + len(o.Comps) + len(o.Data)/4
	}
	return n
}

// ---------------------------------------------------------------------------
// model and executor

type c09Cmd struct {
	m   ref.Cmd
	obj scte35.SpliceCommand
}

type c09Desc struct {
	m         ref.SegDesc
	obj       scte35.SegmentationDescriptor
	subKnown  bool // the sub-segment flag has a defined value
	upidKnown bool
	lent      bool // another signal has been given this descriptor too (its back pointer is then anybody's guess)
}

const c09Mask33 = uint64(1)<<33 - 1

// visibleCmd zeroes what the encoding of c does not carry.
func c09VisibleCmd(c ref.Cmd) ref.Cmd {
	switch c.Kind {
	case "null":
		return ref.Cmd{Kind: "null"}
	case "time":
		v := ref.Cmd{Kind: "time", Time: c.Time}
		if !v.Time.Has {
			v.Time.PTS = 0
		}
		return v
	}
	if c.Cancel {
		return ref.Cmd{Kind: "insert", Event: c.Event, Cancel: true}
	}
	v := c
	if !(v.Program && !v.Immediate) {
		v.Time = ref.SpliceTime{}
	} else if !v.Time.Has {
		v.Time.PTS = 0
	}
	if v.Program {
		v.Comps = nil
	}
	if !v.HasDur {
		v.Auto, v.Dur = false, 0
	}
	return v
}

func (c09) Exec(script interface{}, c *core.Ctx) {
	s := script.(*C09Script)
	cmds := map[string]*c09Cmd{}
	descs := map[string]*c09Desc{}
	var sc scte35.SCTE35
	// signal model
	var desired uint64 // the signal's PTS (what PTS() reports)
	tier, cw, stuffing := 0xFFF, 0, 0
	encAlg := 0 // kept from a decoded section (there is no setter for it)
	curCmd := ""
	var items []string // names of attached descriptors, "f<i>" for foreign ones
	foreign := map[string]core.Hex{}
	var heldRaw []c09Held     // the slices earlier UpdateData calls returned: they are the caller's
	var decBuf, decWas []byte // the buffer the signal was decoded from, and what it held
	var lastEnc []byte        // snapshot of the last encoding (nil: none yet)
	haveEnc := false

	ok := c.Call("create objects", func() {
		cmds["c0"] = &c09Cmd{m: ref.Cmd{Kind: "null"}, obj: scte35.CreateSpliceNull()}
		cmds["c1"] = &c09Cmd{m: ref.Cmd{Kind: "time"}, obj: scte35.CreateTimeSignalCommand()}
		cmds["c2"] = &c09Cmd{m: ref.Cmd{Kind: "insert", Program: true}, obj: scte35.CreateSpliceInsertCommand()}
		for _, n := range []string{"d0", "d1", "d2"} {
			descs[n] = &c09Desc{obj: scte35.CreateSegmentationDescriptor(), subKnown: true, upidKnown: true}
		}
	})
	if !ok {
		return
	}
	if s.Decode == nil {
		if !c.Call("scte35.CreateSCTE35", func() { sc = scte35.CreateSCTE35() }) {
			return
		}
		// a fresh signal has a splice_null of its own
		var own scte35.SpliceCommand
		if !c.Call("SCTE35.CommandInfo", func() { own = sc.CommandInfo() }) {
			return
		}
		cmds["cS"] = &c09Cmd{m: ref.Cmd{Kind: "null"}, obj: own}
		curCmd = "cS"
	} else {
		c.Probe("start_from_decoded")
		sec := *s.Decode
		sec.Stuffing = 0
		enc, _ := sec.Bytes() // the canonical form
		input := enc          // what the decoder is given
		if sec.EncAlg != 0 {
			c.Probe("encryption_algorithm_bits_set")
		}
		if s.LegacyLen {
			input = append([]byte(nil), enc...)
			input[11] |= 0x0F
			input[12] = 0xFF
			crc := ref.CRC32(input[:len(input)-4])
			input[len(input)-4], input[len(input)-3], input[len(input)-2], input[len(input)-1] = byte(crc>>24), byte(crc>>16), byte(crc>>8), byte(crc)
			c.Probe("decoded_section_with_command_length_0xFFF")
		}
		if len(s.Ops)%2 == 0 {
			// a damaged section first: an avail_descriptor, then a segmentation descriptor whose
			// identifier is broken. Whether or not the decoder refuses it, nothing of it belongs
			// to the section decoded next.
			bad := ref.Section{Tier: 0xFFF, Cmd: ref.Cmd{Kind: "null"}, Items: []ref.SpliceItem{
				{Foreign: core.Hex{0x00, 0x08, 'C', 'U', 'E', 'I', 0xDE, 0xAD, 0xBE, 0xEF}},
				{Seg: &ref.SegDesc{Event: 0x0BADBAD0, Program: true, NotRestricted: true, Type: 0x30}},
			}}
			bb, _ := bad.Bytes()
			if i := bytes.LastIndex(bb, []byte("CUEI")); i > 0 {
				bb[i+3] = 'X'
				crc := ref.CRC32(bb[:len(bb)-4])
				bb[len(bb)-4], bb[len(bb)-3], bb[len(bb)-2], bb[len(bb)-1] = byte(crc>>24), byte(crc>>16), byte(crc>>8), byte(crc)
			}
			if !c.Call("scte35.NewSCTE35(damaged section before the one under test)", func() { scte35.NewSCTE35(append([]byte{0}, bb...)) }) {
				return
			}
			c.Probe("damaged_section_decoded_first")
		}
		var err error
		decBuf = append([]byte{0}, input...)
		decWas = append([]byte(nil), decBuf...)
		if !c.Call("scte35.NewSCTE35(initial)", func() { sc, err = scte35.NewSCTE35(decBuf) }) {
			return
		}
		if err != nil {
			if c09Undecodable(sec.Cmd) && err == gots.ErrSCTE35UnsupportedSpliceCommand {
				c.Probe("command_without_time_not_decoded")
				return
			}
			c.Fail("decode_canonical", "initial_section_not_decoded", err, "a signal")
			return
		}
		tier, cw, encAlg = sec.Tier, sec.CW, sec.EncAlg
		vis := c09VisibleCmd(sec.Cmd)
		var own scte35.SpliceCommand
		var ds []scte35.SegmentationDescriptor
		if !c.Call("SCTE35.CommandInfo/Descriptors", func() { own = sc.CommandInfo(); ds = sc.Descriptors() }) {
			return
		}
		cmds["cS"] = &c09Cmd{m: vis, obj: own}
		curCmd = "cS"
		// the signal's time is pts_time + pts_adjustment (pts_time 0 where the command has none)
		desired = (vis.Time.PTS + sec.Adjust) & c09Mask33
		// "re-encoding a decoded canonical section reproduces it byte for byte": on a second
		// decoded copy, before anything is set
		var twin scte35.SCTE35
		var terr error
		var re []byte
		if !c.Call("scte35.NewSCTE35 + UpdateData(untouched)", func() {
			twin, terr = scte35.NewSCTE35(append([]byte{0}, input...))
			if terr == nil {
				re = twin.UpdateData()
			}
		}) {
			return
		}
		if terr != nil || !bytes.Equal(re, enc) {
			c.Fail("reencode_identical", "untouched_decoded_section_reencodes_differently:"+c09Where(sec), fmt.Sprintf("%v %x", terr, re), fmt.Sprintf("%x", enc))
			return
		}
		if sec.Adjust != 0 && !vis.CarriesTime() {
			c.Probe("pts_adjustment_on_a_command_without_time")
		}
		k, f := 0, 0
		for _, it := range sec.Items {
			if it.Seg != nil {
				name := fmt.Sprintf("dS%d", k)
				if k >= len(ds) {
					c.Fail("decode_canonical", "initial_descriptor_missing", len(ds), k+1)
					return
				}
				descs[name] = &c09Desc{m: c09VisibleDesc(*it.Seg), obj: ds[k], subKnown: true, upidKnown: true}
				items = append(items, name)
				k++
			} else {
				name := fmt.Sprintf("f%d", f)
				foreign[name] = it.Foreign
				items = append(items, name)
				f++
				c.Probe("foreign_descriptor")
			}
		}
		if len(ds) != k {
			c.Fail("decode_canonical", "initial_descriptor_count", len(ds), k)
			return
		}
		lastEnc, haveEnc = input, true
	}

	// a bystander: another signal alive in the same process, with a command and a descriptor of
	// its own, encoded again after each of our encodings; the two must not show in each other
	var bySig scte35.SCTE35
	var byEnc []byte
	if !c.Call("bystander signal", func() {
		bySig = scte35.CreateSCTE35()
		bc := scte35.CreateTimeSignalCommand()
		bc.SetHasPTS(true)
		bc.SetPTS(123456)
		bySig.SetCommandInfo(bc)
		bd := scte35.CreateSegmentationDescriptor()
		bd.SetEventID(0xB157A4DE)
		bd.SetTypeID(0x30)
		bd.SetHasProgramSegmentation(true)
		bd.SetIsDeliveryNotRestricted(true)
		bySig.SetDescriptors([]scte35.SegmentationDescriptor{bd})
		byEnc = append([]byte(nil), bySig.UpdateData()...)
	}) {
		return
	}
	bystander := func() bool {
		var again, mine []byte
		if !c.Call("bystander UpdateData", func() { again = bySig.UpdateData(); mine = sc.Data() }) {
			return false
		}
		if !bytes.Equal(again, byEnc) {
			c.Fail("signals_independent", "another_signal_changed", fmt.Sprintf("%x", again), fmt.Sprintf("%x", byEnc))
			return false
		}
		if haveEnc && !bytes.Equal(mine, lastEnc) {
			c.Fail("signals_independent", "data_changed_by_another_signals_encoding", fmt.Sprintf("%x", mine), fmt.Sprintf("%x", lastEnc))
			return false
		}
		return true
	}

	section := func() ref.Section {
		sec := ref.Section{Tier: tier, CW: cw, Stuffing: stuffing, Cmd: cmds[curCmd].m, EncAlg: encAlg}
		if sec.Cmd.CarriesTime() {
			sec.Adjust = (desired - sec.Cmd.Time.PTS) & c09Mask33
		}
		for _, n := range items {
			if d, ok := descs[n]; ok {
				m := d.m
				sec.Items = append(sec.Items, ref.SpliceItem{Seg: &m})
			} else {
				sec.Items = append(sec.Items, ref.SpliceItem{Foreign: foreign[n]})
			}
		}
		return sec
	}

	hasForeign := func() bool { return len(foreign) > 0 }
	var pairA, pairB, lendSig scte35.SCTE35
	var pairAL, pairBL []scte35.SegmentationDescriptor

	for i, op := range s.Ops {
		c.SetStep(i)
		name := op.Obj + "." + op.Op
		switch {
		case op.Obj == "sc":
			switch op.Op {
			case "tier":
				if !c.Call("SCTE35.SetTier", func() { sc.SetTier(uint16(op.U)) }) {
					return
				}
				if op.U > 0xFFF {
					c09Wide(c)
				}
				tier = int(op.U & 0xFFF)
			case "stuffing":
				if !c.Call("SCTE35.SetAlignmentStuffing", func() { sc.SetAlignmentStuffing(uint(op.U)) }) {
					return
				}
				stuffing = int(op.U)
			case "pts":
				if !c.Call("SCTE35.SetPTS", func() { sc.SetPTS(gots.PTS(op.U)) }) {
					return
				}
				if op.U > c09Mask33 {
					c09Wide(c)
				}
				desired = op.U & c09Mask33
				if cm := cmds[curCmd]; cm.m.Kind != "null" {
					cm.m.Time.PTS = op.U & c09Mask33
				} else {
					c09NoEffect(c)
				}
			case "adjust_pts":
				if !c.Call("SCTE35.SetAdjustPTS", func() { sc.SetAdjustPTS(gots.PTS(op.U)) }) {
					return
				}
				if op.U > c09Mask33 {
					c09Wide(c)
				}
				desired = op.U & c09Mask33
			case "has_pts":
				if !c.Call("SCTE35.SetHasPTS", func() { sc.SetHasPTS(op.B) }) {
					return
				}
				if cm := cmds[curCmd]; cm.m.Kind != "null" {
					if cm.m.Time.Has && !op.B {
						c.Probe("flag_cleared_after_set")
					}
					cm.m.Time.Has = op.B
				} else {
					c09NoEffect(c)
				}
			case "set_cmd":
				if len(op.List) != 1 || cmds[op.List[0]] == nil {
					continue
				}
				n := op.List[0]
				if !c.Call("SCTE35.SetCommandInfo", func() { sc.SetCommandInfo(cmds[n].obj) }) {
					return
				}
				if n != curCmd {
					c.Probe("command_replaced")
				}
				curCmd = n
			case "set_descs":
				if hasForeign() {
					continue
				}
				var l []scte35.SegmentationDescriptor
				var names []string
				seen := map[string]bool{}
				for _, n := range op.List {
					if d := descs[n]; d != nil && !seen[n] {
						seen[n] = true
						l = append(l, d.obj)
						names = append(names, n)
					}
				}
				if !c.Call("SCTE35.SetDescriptors", func() { sc.SetDescriptors(l) }) {
					return
				}
				c.Probe("descriptors_replaced")
				if len(names) == 3 {
					c.Probe("three_descriptors")
				}
				for _, n := range names {
					descs[n].lent = false
				}
				items = names
			case "append_desc":
				// the idiom SetDescriptors(append(Descriptors(), d)), on this signal and, interleaved,
				// on two created signals of their own: each list belongs to its signal
				if hasForeign() || len(op.List) != 1 || descs[op.List[0]] == nil {
					continue
				}
				dup := false
				for _, n := range items {
					if n == op.List[0] {
						dup = true
					}
				}
				if dup || len(items) >= 3 {
					continue
				}
				okA := c.Call("SCTE35.SetDescriptors(append(Descriptors(), d))", func() {
					if pairA == nil {
						pairA, pairB = scte35.CreateSCTE35(), scte35.CreateSCTE35()
					}
					da, db := scte35.CreateSegmentationDescriptor(), scte35.CreateSegmentationDescriptor()
					da.SetEventID(0xA0000000 + uint32(len(pairAL)))
					db.SetEventID(0xB0000000 + uint32(len(pairBL)))
					pairA.SetDescriptors(append(pairA.Descriptors(), da))
					sc.SetDescriptors(append(sc.Descriptors(), descs[op.List[0]].obj))
					pairB.SetDescriptors(append(pairB.Descriptors(), db))
					pairAL, pairBL = append(pairAL, da), append(pairBL, db)
				})
				if !okA {
					return
				}
				items = append(append([]string(nil), items...), op.List[0])
				descs[op.List[0]].lent = false
				c.Probe("descriptors_replaced")
				c.Probe("descriptor_appended_to_the_signals_own_list")
				for _, pr := range []struct {
					sig  scte35.SCTE35
					want []scte35.SegmentationDescriptor
				}{{pairA, pairAL}, {pairB, pairBL}} {
					got := pr.sig.Descriptors()
					bad := len(got) != len(pr.want)
					for k := 0; !bad && k < len(got); k++ {
						bad = got[k] != pr.want[k]
					}
					if bad {
						c.Fail("signals_independent", "descriptor_list_of_another_created_signal_changed", len(got), len(pr.want))
						return
					}
				}
			case "lend_desc":
				// a descriptor of this signal is ALSO put into another signal's list (the same
				// descriptor repeated in a later signal): this signal's list is its own
				if len(op.List) != 1 || descs[op.List[0]] == nil {
					continue
				}
				if !c.Call("SCTE35.SetDescriptors(on another signal, with a descriptor of this one)", func() {
					if lendSig == nil {
						lendSig = scte35.CreateSCTE35()
					}
					lendSig.SetDescriptors([]scte35.SegmentationDescriptor{descs[op.List[0]].obj})
				}) {
					return
				}
				descs[op.List[0]].lent = true
				for _, n := range items {
					if n == op.List[0] {
						c.Probe("attached_descriptor_also_given_to_another_signal")
					}
				}
			case "encode":
				if !c09Encode(c, sc, section(), &lastEnc, &haveEnc, descs, items, &heldRaw) {
					return
				}
				if !bystander() {
					return
				}
			}
		case cmds[op.Obj] != nil:
			if !c09CmdOp(c, cmds[op.Obj], op) {
				return
			}
		case descs[op.Obj] != nil:
			if !c09DescOp(c, descs[op.Obj], op) {
				return
			}
		default:
			continue
		}
		c.Log("%s b=%t u=%d", name, op.B, op.U)
		c.Unit("setter_calls", 1)
		// after every step: every getter of every object, and the cached encoding
		if !c09Getters(c, sc, cmds, descs, curCmd, items, tier, stuffing, desired) {
			return
		}
		if !bytes.Equal(decBuf, decWas) {
			// setters and encoders write into the signal, not into the bytes it was decoded from
			c.Fail("decoded_from_buffer_untouched", "input_buffer_of_the_decoder_changed:"+opClass(op), "changed", "unchanged")
			return
		}
		for _, h := range heldRaw {
			if !bytes.Equal(h.raw, h.snap) {
				c.Fail("returned_encoding_unchanged", "earlier_update_data_result_changed:"+opClass(op), fmt.Sprintf("%x", h.raw), fmt.Sprintf("%x", h.snap))
				return
			}
		}
		if haveEnc && op.Op != "encode" {
			var d []byte
			if !c.Call("SCTE35.Data", func() { d = sc.Data() }) {
				return
			}
			if !bytes.Equal(d, lastEnc) {
				c.Fail("data_only_changes_on_encode", "data_changed_without_update:"+opClass(op), fmt.Sprintf("%x", d), fmt.Sprintf("%x", lastEnc))
				return
			}
			c.Probe("data_unchanged_between_encodings")
		}
	}
}

// c09Undecodable: commands the decoder documents as unsupported - a time_signal, or a
// program-mode non-immediate splice_insert, whose splice_time specifies no time.
func c09Undecodable(cm ref.Cmd) bool {
	switch cm.Kind {
	case "time":
		return !cm.Time.Has
	case "insert":
		return !cm.Cancel && cm.Program && !cm.Immediate && !cm.Time.Has
	}
	return false
}

func c09Wide(c *core.Ctx) {
	c.Probe("value_beyond_field_width")
	c.Fault("caller_value_beyond_field_width")
}

func c09NoEffect(c *core.Ctx) {
	c.Probe("no_effect_call")
	c.Fault("caller_documented_no_effect_call")
}

func opClass(op C09Op) string {
	o := op.Obj
	if len(o) > 1 && o != "sc" {
		o = o[:1]
	}
	return o + "." + op.Op
}

func c09VisibleDesc(d ref.SegDesc) ref.SegDesc {
	if d.Cancel {
		return ref.SegDesc{Event: d.Event, Cancel: true}
	}
	v := d
	if v.NotRestricted {
		v.Web, v.NoBlackout, v.Archive, v.Device = false, false, false, 0
	}
	if v.Program {
		v.Comps = nil
	}
	if !v.HasDur {
		v.Dur = 0
	}
	if v.UPIDType == 0x0D {
		v.UPID = nil
	} else {
		v.MID = nil
	}
	if !v.SubSegments() {
		v.HasSub, v.SubNum, v.SubExp = false, 0, 0
	}
	return v
}

func c09CmdOp(c *core.Ctx, cm *c09Cmd, op C09Op) bool {
	if op.Op == "scribble" {
		// the bytes Data() hands out are the caller's: overwriting them changes no object
		ok := c.Call("SpliceCommand.Data (overwritten by the caller)", func() {
			b := cm.obj.Data()
			for i := range b {
				b[i] = 0
			}
		})
		if ok {
			c.Probe("part_encoding_overwritten_by_the_caller")
		}
		return ok
	}
	ins, isIns := cm.obj.(scte35.SpliceInsertCommand)
	m := &cm.m
	flag := func(cur *bool) {
		if *cur && !op.B {
			c.Probe("flag_cleared_after_set")
		}
		*cur = op.B
	}
	switch op.Op {
	case "has_pts":
		if !c.Call("SpliceCommand.SetHasPTS", func() { cm.obj.SetHasPTS(op.B) }) {
			return false
		}
		if m.Kind == "null" {
			c09NoEffect(c)
		} else {
			flag(&m.Time.Has)
		}
	case "pts":
		if !c.Call("SpliceCommand.SetPTS", func() { cm.obj.SetPTS(gots.PTS(op.U)) }) {
			return false
		}
		if op.U > c09Mask33 {
			c09Wide(c)
		}
		if m.Kind == "null" {
			c09NoEffect(c)
		} else {
			m.Time.PTS = op.U & c09Mask33
		}
	case "icomp_edit":
		// edit a component of a (decoded) component-mode insert through the object that
		// Components() hands out; there is no other way to change one
		if !isIns || len(op.Comps) != 1 {
			return true
		}
		var cs []scte35.Component
		if !c.Call("SpliceInsertCommand.Components", func() { cs = ins.Components() }) {
			return false
		}
		i := int(op.U)
		if i >= len(cs) || i >= len(m.Comps) {
			return true
		}
		k := op.Comps[0]
		if !c.Call("Component setters", func() {
			cs[i].SetComponentTag(byte(k.Tag))
			cs[i].SetHasPTS(op.B)
			cs[i].SetPTS(gots.PTS(k.Off))
		}) {
			return false
		}
		if k.Off > c09Mask33 {
			c09Wide(c)
		}
		m.Comps = append([]ref.InsertComp(nil), m.Comps...)
		m.Comps[i] = ref.InsertComp{Tag: k.Tag & 0xFF, Time: ref.SpliceTime{Has: op.B, PTS: k.Off & c09Mask33}}
		c.Probe("component_edited_through_getter_object")
	default:
		if !isIns {
			return true
		}
		okc := c.Call("SpliceInsertCommand."+op.Op, func() {
			switch op.Op {
			case "event":
				ins.SetEventID(uint32(op.U))
			case "cancel":
				ins.SetIsEventCanceled(op.B)
			case "out":
				ins.SetIsOut(op.B)
			case "program":
				ins.SetIsProgramSplice(op.B)
			case "has_dur":
				ins.SetHasDuration(op.B)
			case "immediate":
				ins.SetSpliceImmediate(op.B)
			case "auto":
				ins.SetIsAutoReturn(op.B)
			case "dur":
				ins.SetDuration(gots.PTS(op.U))
			case "upi":
				ins.SetUniqueProgramId(uint16(op.U))
			case "avail":
				ins.SetAvailNum(uint8(op.U))
			case "avails":
				ins.SetAvailsExpected(uint8(op.U))
			}
		})
		if !okc {
			return false
		}
		switch op.Op {
		case "event":
			m.Event = uint32(op.U)
		case "cancel":
			flag(&m.Cancel)
		case "out":
			flag(&m.Out)
		case "program":
			flag(&m.Program)
		case "has_dur":
			flag(&m.HasDur)
		case "immediate":
			flag(&m.Immediate)
		case "auto":
			flag(&m.Auto)
		case "dur":
			if op.U > c09Mask33 {
				c09Wide(c)
			}
			m.Dur = op.U & c09Mask33
		case "upi":
			m.UPI = int(op.U & 0xFFFF)
		case "avail":
			m.Avail = int(op.U & 0xFF)
		case "avails":
			m.Avails = int(op.U & 0xFF)
		}
	}
	return true
}

func c09DescOp(c *core.Ctx, dd *c09Desc, op C09Op) bool {
	if op.Op == "scribble" {
		ok := c.Call("SegmentationDescriptor.Data (overwritten by the caller)", func() {
			b := dd.obj.Data()
			for i := range b {
				b[i] = 0
			}
		})
		if ok {
			c.Probe("part_encoding_overwritten_by_the_caller")
		}
		return ok
	}
	d := dd.obj
	m := &dd.m
	flag := func(cur *bool) {
		if *cur && !op.B {
			c.Probe("flag_cleared_after_set")
		}
		*cur = op.B
	}
	okc := c.Call("SegmentationDescriptor."+op.Op, func() {
		switch op.Op {
		case "event":
			d.SetEventID(uint32(op.U))
		case "cancel":
			d.SetIsEventCanceled(op.B)
		case "program":
			d.SetHasProgramSegmentation(op.B)
		case "has_dur":
			d.SetHasDuration(op.B)
		case "dur":
			d.SetDuration(gots.PTS(op.U))
		case "not_restricted":
			d.SetIsDeliveryNotRestricted(op.B)
		case "web":
			d.SetIsWebDeliveryAllowed(op.B)
		case "no_blackout":
			d.SetHasNoRegionalBlackout(op.B)
		case "archive":
			d.SetIsArchiveAllowed(op.B)
		case "device":
			d.SetDeviceRestrictions(scte35.DeviceRestrictions(op.U & 3))
		case "comps":
			var l []scte35.ComponentOffset
			for _, k := range op.Comps {
				co := scte35.CreateComponentOffset()
				co.SetComponentTag(byte(k.Tag))
				co.SetPTSOffset(gots.PTS(k.Off))
				l = append(l, co)
			}
			d.SetComponents(l)
			// the objects handed in stay the caller's: changing them afterwards changes no descriptor
			for _, co := range l {
				co.SetComponentTag(co.ComponentTag() ^ 0xA5)
				co.SetPTSOffset(co.PTSOffset() ^ 0x155)
			}
		case "upid":
			d.SetUPIDType(scte35.SegUPIDType(op.U))
			d.SetUPID(append([]byte(nil), op.Data...))
		case "upid_data":
			d.SetUPID(append([]byte(nil), op.Data...))
		case "upid_none":
			d.SetUPIDType(scte35.SegUPIDType(0))
		case "mid", "mid_lone":
			if op.Op == "mid" {
				d.SetUPIDType(scte35.SegUPIDType(0x0D))
			}
			var l []scte35.UPID
			for _, u := range op.MID {
				x := scte35.CreateUPID()
				x.SetUPIDType(scte35.SegUPIDType(u.Type))
				x.SetUPID(append([]byte(nil), u.Data...))
				l = append(l, x)
			}
			d.SetMID(l)
			for _, x := range l {
				x.SetUPIDType(x.UPIDType() ^ 0x03)
				x.SetUPID([]byte("changed-by-the-caller-afterwards"))
			}
		case "comps_reorder":
			cs := d.Components()
			for i, j := 0, len(cs)-1; i < j; i, j = i+1, j-1 {
				cs[i], cs[j] = cs[j], cs[i]
			}
			d.SetComponents(cs)
		case "mid_reorder":
			if m.UPIDType == 0x0D && len(op.MID) == 1 {
				ms := d.MID()
				var l []scte35.UPID
				switch op.U {
				case 0:
					for i := len(ms) - 1; i >= 0; i-- {
						l = append(l, ms[i])
					}
				case 1:
					if len(ms) > 0 {
						l = append(l, ms[len(ms)-1])
						l = append(l, ms[:len(ms)-1]...)
					}
				default:
					x := scte35.CreateUPID()
					x.SetUPIDType(scte35.SegUPIDType(op.MID[0].Type))
					x.SetUPID(append([]byte(nil), op.MID[0].Data...))
					l = append(append(l, x), ms...)
				}
				d.SetMID(l)
			}
		case "comp_edit":
			if cs := d.Components(); len(op.Comps) == 1 && int(op.U) < len(cs) && int(op.U) < len(m.Comps) {
				cs[op.U].SetComponentTag(byte(op.Comps[0].Tag))
				cs[op.U].SetPTSOffset(gots.PTS(op.Comps[0].Off))
			}
		case "mid_edit":
			if ms := d.MID(); len(op.MID) == 1 && int(op.U) < len(ms) && m.UPIDType == 0x0D && int(op.U) < len(m.MID) {
				ms[op.U].SetUPIDType(scte35.SegUPIDType(op.MID[0].Type))
				ms[op.U].SetUPID(append([]byte(nil), op.MID[0].Data...))
			}
		case "type":
			d.SetTypeID(scte35.SegDescType(op.U))
		case "seg_num":
			d.SetSegmentNumber(uint8(op.U))
		case "seg_exp":
			d.SetSegmentsExpected(uint8(op.U))
		case "has_sub":
			d.SetHasSubSegments(op.B)
		case "sub_num":
			d.SetSubSegmentNumber(uint8(op.U))
		case "sub_exp":
			d.SetSubSegmentsExpected(uint8(op.U))
		}
	})
	if !okc {
		return false
	}
	switch op.Op {
	case "event":
		m.Event = uint32(op.U)
	case "cancel":
		flag(&m.Cancel)
	case "program":
		flag(&m.Program)
	case "has_dur":
		flag(&m.HasDur)
	case "dur":
		if op.U >= 1<<40 {
			c09Wide(c)
		}
		m.Dur = op.U & (1<<40 - 1)
	case "not_restricted":
		flag(&m.NotRestricted)
	case "web":
		flag(&m.Web)
	case "no_blackout":
		flag(&m.NoBlackout)
	case "archive":
		flag(&m.Archive)
	case "device":
		m.Device = int(op.U & 3)
	case "comps":
		m.Comps = nil
		for _, k := range op.Comps {
			if k.Off > c09Mask33 {
				c09Wide(c)
			}
			m.Comps = append(m.Comps, ref.SegComp{Tag: k.Tag & 0xFF, Off: k.Off & c09Mask33})
		}
	case "upid":
		if op.U == 0x0D {
			return true // (the generator does not produce this)
		}
		m.UPIDType, m.UPID, m.MID = int(op.U&0xFF), append(core.Hex(nil), op.Data...), nil
		dd.upidKnown = true
		c.Probe("upid_set")
	case "upid_data":
		if m.UPIDType == 0x0D {
			c09NoEffect(c)
		} else {
			m.UPID = append(core.Hex(nil), op.Data...)
			dd.upidKnown = true
		}
	case "upid_none":
		m.UPIDType, m.UPID, m.MID = 0, nil, nil
		dd.upidKnown = true
	case "mid":
		m.UPIDType, m.UPID = 0x0D, nil
		m.MID = append([]ref.UPID(nil), op.MID...)
		dd.upidKnown = true
		c.Probe("mid_set")
	case "mid_lone":
		if m.UPIDType == 0x0D {
			m.MID = append([]ref.UPID(nil), op.MID...)
		} else {
			c09NoEffect(c)
		}
	case "comps_reorder":
		rev := make([]ref.SegComp, len(m.Comps))
		for i := range m.Comps {
			rev[len(m.Comps)-1-i] = m.Comps[i]
		}
		m.Comps = rev
		if len(rev) >= 2 {
			c.Probe("own_components_handed_back_reordered")
		}
	case "mid_reorder":
		if m.UPIDType == 0x0D && len(op.MID) == 1 {
			old := m.MID
			var l []ref.UPID
			switch op.U {
			case 0:
				for i := len(old) - 1; i >= 0; i-- {
					l = append(l, old[i])
				}
			case 1:
				if len(old) > 0 {
					l = append(l, old[len(old)-1])
					l = append(l, old[:len(old)-1]...)
				}
			default:
				l = append(l, ref.UPID{Type: op.MID[0].Type & 0xFF, Data: append(core.Hex(nil), op.MID[0].Data...)})
				l = append(l, old...)
			}
			m.MID = l
			if len(old) >= 2 {
				c.Probe("own_mid_entries_handed_back_in_another_order")
			}
		}
	case "comp_edit":
		if len(op.Comps) == 1 && int(op.U) < len(m.Comps) {
			k := op.Comps[0]
			if k.Off > c09Mask33 {
				c09Wide(c)
			}
			m.Comps = append([]ref.SegComp(nil), m.Comps...)
			m.Comps[op.U] = ref.SegComp{Tag: k.Tag & 0xFF, Off: k.Off & c09Mask33}
			c.Probe("component_edited_through_getter_object")
		}
	case "mid_edit":
		if len(op.MID) == 1 && m.UPIDType == 0x0D && int(op.U) < len(m.MID) {
			m.MID = append([]ref.UPID(nil), m.MID...)
			m.MID[op.U] = ref.UPID{Type: op.MID[0].Type & 0xFF, Data: append(core.Hex(nil), op.MID[0].Data...)}
			c.Probe("upid_of_a_mid_edited_through_getter_object")
		}
	case "type":
		m.Type = int(op.U & 0xFF)
		if m.Type != 0x34 && m.Type != 0x36 && m.HasSub {
			dd.subKnown = false
		}
	case "seg_num":
		m.SegNum = int(op.U & 0xFF)
	case "seg_exp":
		m.SegExp = int(op.U & 0xFF)
	case "has_sub":
		flag(&m.HasSub)
		dd.subKnown = true
	case "sub_num":
		m.SubNum = int(op.U & 0xFF)
	case "sub_exp":
		m.SubExp = int(op.U & 0xFF)
	}
	return true
}

// c09CmdGetters compares the getters of a command object with a logical command. visible:
// compare only what the encoding carries (objects that came out of the decoder).
func c09CmdGetters(c *core.Ctx, obj scte35.SpliceCommand, m ref.Cmd, who string, visible bool) bool {
	fail := func(what string, got, want interface{}) bool {
		c.Fail("getter", "getter:"+who+":"+what, got, want)
		return false
	}
	ok := true
	okc := c.Call("SpliceCommand getters", func() {
		if byte(obj.CommandType()) != m.Type() {
			ok = fail("CommandType", obj.CommandType(), m.Type())
			return
		}
		if m.Kind == "null" {
			if obj.HasPTS() {
				ok = fail("null.HasPTS", true, false)
			}
			return
		}
		carries := m.Kind == "time" || (m.Kind == "insert" && !m.Cancel && m.Program && !m.Immediate)
		if !visible || carries {
			if obj.HasPTS() != m.Time.Has {
				ok = fail(m.Kind+".HasPTS", obj.HasPTS(), m.Time.Has)
				return
			}
			if (!visible || m.Time.Has) && uint64(obj.PTS()) != m.Time.PTS {
				ok = fail(m.Kind+".PTS", uint64(obj.PTS()), m.Time.PTS)
				return
			}
		}
		ins, isIns := obj.(scte35.SpliceInsertCommand)
		if m.Kind != "insert" {
			return
		}
		if !isIns {
			ok = fail("insert.type", fmt.Sprintf("%T", obj), "SpliceInsertCommand")
			return
		}
		if ins.EventID() != m.Event {
			ok = fail("insert.EventID", ins.EventID(), m.Event)
			return
		}
		if ins.IsEventCanceled() != m.Cancel {
			ok = fail("insert.IsEventCanceled", ins.IsEventCanceled(), m.Cancel)
			return
		}
		if visible && m.Cancel {
			return
		}
		type bq struct {
			n    string
			g, w bool
		}
		for _, q := range []bq{{"IsOut", ins.IsOut(), m.Out}, {"IsProgramSplice", ins.IsProgramSplice(), m.Program}, {"HasDuration", ins.HasDuration(), m.HasDur}, {"SpliceImmediate", ins.SpliceImmediate(), m.Immediate}} {
			if q.g != q.w {
				ok = fail("insert."+q.n, q.g, q.w)
				return
			}
		}
		if !visible || m.HasDur {
			if ins.IsAutoReturn() != m.Auto {
				ok = fail("insert.IsAutoReturn", ins.IsAutoReturn(), m.Auto)
				return
			}
			if uint64(ins.Duration()) != m.Dur {
				ok = fail("insert.Duration", uint64(ins.Duration()), m.Dur)
				return
			}
		}
		if int(ins.UniqueProgramId()) != m.UPI || int(ins.AvailNum()) != m.Avail || int(ins.AvailsExpected()) != m.Avails {
			ok = fail("insert.UniqueProgramId/AvailNum/AvailsExpected", fmt.Sprint(ins.UniqueProgramId(), ins.AvailNum(), ins.AvailsExpected()), fmt.Sprint(m.UPI, m.Avail, m.Avails))
			return
		}
		if (visible || len(m.Comps) > 0) && !m.Program {
			cs := ins.Components()
			if len(cs) != len(m.Comps) {
				ok = fail("insert.Components:len", len(cs), len(m.Comps))
				return
			}
			for i, k := range m.Comps {
				if int(cs[i].ComponentTag()) != k.Tag {
					ok = fail("insert.Components:tag", cs[i].ComponentTag(), k.Tag)
					return
				}
				if !m.Immediate || !visible {
					if cs[i].HasPTS() != k.Time.Has || (k.Time.Has && uint64(cs[i].PTS()) != k.Time.PTS) {
						ok = fail("insert.Components:time", fmt.Sprint(cs[i].HasPTS(), uint64(cs[i].PTS())), fmt.Sprint(k.Time.Has, k.Time.PTS))
						return
					}
				}
			}
		}
	})
	return okc && ok
}

// c09DescGetters: as c09CmdGetters, for a segmentation descriptor.
func c09DescGetters(c *core.Ctx, obj scte35.SegmentationDescriptor, dd *c09Desc, who string, visible bool) bool {
	m := dd.m
	fail := func(what string, got, want interface{}) bool {
		c.Fail("getter", "getter:"+who+":"+what, got, want)
		return false
	}
	ok := true
	okc := c.Call("SegmentationDescriptor getters", func() {
		if obj.EventID() != m.Event {
			ok = fail("EventID", obj.EventID(), m.Event)
			return
		}
		if obj.IsEventCanceled() != m.Cancel {
			ok = fail("IsEventCanceled", obj.IsEventCanceled(), m.Cancel)
			return
		}
		if visible && m.Cancel {
			return
		}
		type bq struct {
			n    string
			g, w bool
		}
		qs := []bq{{"HasProgramSegmentation", obj.HasProgramSegmentation(), m.Program}, {"HasDuration", obj.HasDuration(), m.HasDur}, {"IsDeliveryNotRestricted", obj.IsDeliveryNotRestricted(), m.NotRestricted}}
		if !m.NotRestricted {
			qs = append(qs, bq{"IsWebDeliveryAllowed", obj.IsWebDeliveryAllowed(), m.Web}, bq{"HasNoRegionalBlackout", obj.HasNoRegionalBlackout(), m.NoBlackout}, bq{"IsArchiveAllowed", obj.IsArchiveAllowed(), m.Archive})
		}
		for _, q := range qs {
			if q.g != q.w {
				ok = fail(q.n, q.g, q.w)
				return
			}
		}
		if !m.NotRestricted && int(obj.DeviceRestrictions()) != m.Device {
			ok = fail("DeviceRestrictions", obj.DeviceRestrictions(), m.Device)
			return
		}
		if (!visible || m.HasDur) && uint64(obj.Duration()) != m.Dur {
			ok = fail("Duration", uint64(obj.Duration()), m.Dur)
			return
		}
		if !visible || !m.Program {
			cs := obj.Components()
			if len(cs) != len(m.Comps) {
				ok = fail("Components:len", len(cs), len(m.Comps))
				return
			}
			for i, k := range m.Comps {
				if int(cs[i].ComponentTag()) != k.Tag || uint64(cs[i].PTSOffset()) != k.Off {
					ok = fail("Components:value", fmt.Sprint(cs[i].ComponentTag(), uint64(cs[i].PTSOffset())), fmt.Sprint(k.Tag, k.Off))
					return
				}
			}
		}
		if int(obj.TypeID()) != m.Type || int(obj.SegmentNumber()) != m.SegNum || int(obj.SegmentsExpected()) != m.SegExp || int(obj.SegmentNum()) != m.SegNum {
			ok = fail("TypeID/SegmentNumber/SegmentsExpected", fmt.Sprint(obj.TypeID(), obj.SegmentNumber(), obj.SegmentsExpected()), fmt.Sprint(m.Type, m.SegNum, m.SegExp))
			return
		}
		if dd.subKnown && (m.Type == 0x34 || m.Type == 0x36) {
			if obj.HasSubSegments() != m.HasSub {
				ok = fail("HasSubSegments", obj.HasSubSegments(), m.HasSub)
				return
			}
			if (!visible || m.HasSub) && (int(obj.SubSegmentNumber()) != m.SubNum || int(obj.SubSegmentsExpected()) != m.SubExp) {
				ok = fail("SubSegmentNumber/Expected", fmt.Sprint(obj.SubSegmentNumber(), obj.SubSegmentsExpected()), fmt.Sprint(m.SubNum, m.SubExp))
				return
			}
		}
		if dd.upidKnown {
			if int(obj.UPIDType()) != m.UPIDType {
				ok = fail("UPIDType", obj.UPIDType(), m.UPIDType)
				return
			}
			if m.UPIDType == 0x0D {
				if len(obj.UPID()) != 0 {
					ok = fail("UPID(of a MID)", fmt.Sprintf("%x", obj.UPID()), "empty")
					return
				}
				ms := obj.MID()
				if len(ms) != len(m.MID) {
					ok = fail("MID:len", len(ms), len(m.MID))
					return
				}
				for i, u := range m.MID {
					if int(ms[i].UPIDType()) != u.Type || !bytes.Equal(ms[i].UPID(), u.Data) {
						ok = fail("MID:value", fmt.Sprintf("%d %x", ms[i].UPIDType(), ms[i].UPID()), fmt.Sprintf("%d %x", u.Type, []byte(u.Data)))
						return
					}
				}
			} else if !bytes.Equal(obj.UPID(), m.UPID) {
				ok = fail("UPID", fmt.Sprintf("%x", obj.UPID()), fmt.Sprintf("%x", []byte(m.UPID)))
				return
			}
		}
	})
	return okc && ok
}

func c09Getters(c *core.Ctx, sc scte35.SCTE35, cmds map[string]*c09Cmd, descs map[string]*c09Desc, curCmd string, items []string, tier, stuffing int, desired uint64) bool {
	for _, n := range []string{"c0", "c1", "c2", "cS"} {
		if cm := cmds[n]; cm != nil {
			if !c09CmdGetters(c, cm.obj, cm.m, cm.m.Kind, n == "cS" && false) {
				return false
			}
		}
	}
	for _, n := range []string{"d0", "d1", "d2", "dS0", "dS1", "dS2"} {
		if d := descs[n]; d != nil {
			if !c09DescGetters(c, d.obj, d, "descriptor", false) {
				return false
			}
		}
	}
	ok := true
	fail := func(what string, got, want interface{}) {
		c.Fail("getter", "getter:signal:"+what, got, want)
		ok = false
	}
	okc := c.Call("SCTE35 getters", func() {
		cm := cmds[curCmd]
		if int(sc.Tier()) != tier {
			fail("Tier", sc.Tier(), tier)
			return
		}
		if int(sc.AlignmentStuffing()) != stuffing {
			fail("AlignmentStuffing", sc.AlignmentStuffing(), stuffing)
			return
		}
		if byte(sc.Command()) != cm.m.Type() {
			fail("Command", sc.Command(), cm.m.Type())
			return
		}
		if sc.CommandInfo() != cm.obj {
			fail("CommandInfo", "another object", "the command that was set")
			return
		}
		wantHas := cm.m.Kind != "null" && cm.m.Time.Has
		if sc.HasPTS() != wantHas {
			fail("HasPTS", sc.HasPTS(), wantHas)
			return
		}
		if uint64(sc.PTS()) != desired {
			fail("PTS", uint64(sc.PTS()), desired)
			return
		}
		ds := sc.Descriptors()
		k := 0
		for _, n := range items {
			d := descs[n]
			if d == nil {
				continue
			}
			if k >= len(ds) || ds[k] != d.obj {
				fail("Descriptors", "another list", "the descriptors that were set, in order")
				return
			}
			if !d.lent && d.obj.SCTE35() != sc {
				fail("Descriptor.SCTE35", "another signal", "the signal it is attached to")
				return
			}
			k++
		}
		if k != len(ds) {
			fail("Descriptors:len", len(ds), k)
		}
	})
	return okc && ok
}

// c09Encode: UpdateData against the reference, CRC, idempotence, decode, re-encode.
type c09Held struct{ raw, snap []byte }

func c09Encode(c *core.Ctx, sc scte35.SCTE35, sec ref.Section, lastEnc *[]byte, haveEnc *bool, descs map[string]*c09Desc, items []string, heldRaw *[]c09Held) bool {
	var enc []byte
	if !c.Call("SCTE35.UpdateData", func() { enc = sc.UpdateData() }) {
		return false
	}
	c.Probe("encoded")
	c.Unit("sections_encoded", 1)
	want, mask := sec.Bytes()
	cm := sec.Cmd
	if cm.Kind == "insert" {
		switch {
		case cm.Cancel:
			c.Probe("insert_cancelled")
		case !cm.Program:
			c.Probe("insert_component_mode")
		}
		if !cm.Cancel && cm.HasDur {
			c.Probe("insert_with_duration")
		}
	}
	if len(cm.Bytes()) >= 256 {
		c.Probe("command_of_256_bytes_or_more")
	}
	if cm.CarriesTime() && sec.Adjust != 0 {
		c.Probe("pts_adjustment_nonzero")
		if sec.Adjust+cm.Time.PTS > c09Mask33 {
			c.Probe("pts_adjustment_wraps")
		}
	}
	ambiguous := false
	for _, n := range items {
		if d := descs[n]; d != nil {
			if d.m.Cancel {
				c.Probe("descriptor_cancelled")
			} else {
				if !d.m.Program {
					c.Probe("descriptor_components")
				}
				if d.m.SubSegments() {
					c.Probe("sub_segments")
				}
				if !d.subKnown && (d.m.Type == 0x34 || d.m.Type == 0x36) {
					ambiguous = true
				}
				if d.m.HasSub && (d.m.Type == 0x38 || d.m.Type == 0x3A) {
					// later editions of SCTE 35 give these types sub-segment fields too: either
					// encoding is accepted, but it must survive decoding and re-encoding
					ambiguous = true
					c.Probe("sub_segment_flag_on_type_0x38_or_0x3A")
				}
			}
			if !d.upidKnown {
				ambiguous = true
			}
		}
	}
	held := append([]byte(nil), enc...)
	*heldRaw = append(*heldRaw, c09Held{raw: enc, snap: held})
	if len(*heldRaw) > 4 {
		*heldRaw = (*heldRaw)[1:]
	}
	if !ambiguous {
		if len(enc) != len(want) {
			c.Fail("canonical_encoding", "encoding_length:"+c09Where(sec), fmt.Sprintf("%d bytes: %x", len(enc), enc), fmt.Sprintf("%d bytes: %x", len(want), want))
			return false
		}
		for i := range want {
			if mask[i] && enc[i] != want[i] {
				c.Fail("canonical_encoding", "encoding_differs:"+c09Region(sec, i), fmt.Sprintf("byte %d = %#02x in %x", i, enc[i], enc), fmt.Sprintf("%#02x in %x", want[i], want))
				return false
			}
		}
	}
	if ref.CRC32(enc) != 0 {
		c.Fail("crc", "crc_of_section_not_zero", fmt.Sprintf("%x", enc), "CRC-32/MPEG-2 of the whole section = 0")
		return false
	}
	// the parts encode on their own to the same bytes
	if !ambiguous {
		var cb []byte
		if !c.Call("SpliceCommand.Data", func() { cb = sc.CommandInfo().Data() }) {
			return false
		}
		if !bytes.Equal(cb, sec.Cmd.Bytes()) {
			c.Fail("canonical_encoding", "command_data_differs:"+sec.Cmd.Kind, fmt.Sprintf("%x", cb), fmt.Sprintf("%x", sec.Cmd.Bytes()))
			return false
		}
		for _, n := range items {
			if d := descs[n]; d != nil {
				var db []byte
				if !c.Call("SegmentationDescriptor.Data", func() { db = d.obj.Data() }) {
					return false
				}
				if !bytes.Equal(db, d.m.Bytes()) {
					c.Fail("canonical_encoding", "descriptor_data_differs", fmt.Sprintf("%x", db), fmt.Sprintf("%x", d.m.Bytes()))
					return false
				}
			}
		}
	}
	// idempotent
	var again []byte
	if !c.Call("SCTE35.UpdateData(again)", func() { again = sc.UpdateData() }) {
		return false
	}
	if !bytes.Equal(again, held) {
		c.Fail("idempotent", "second_encoding_differs", fmt.Sprintf("%x", again), fmt.Sprintf("%x", held))
		return false
	}
	var data []byte
	if !c.Call("SCTE35.Data", func() { data = sc.Data() }) {
		return false
	}
	if !bytes.Equal(data, held) {
		c.Fail("data_is_last_encoding", "data_differs_from_update_data", fmt.Sprintf("%x", data), fmt.Sprintf("%x", held))
		return false
	}
	*lastEnc, *haveEnc = held, true
	// decode what was encoded
	var dsc scte35.SCTE35
	var err error
	if !c.Call("scte35.NewSCTE35(encoded)", func() { dsc, err = scte35.NewSCTE35(append([]byte{0}, held...)) }) {
		return false
	}
	if err != nil {
		if c09Undecodable(cm) && err == gots.ErrSCTE35UnsupportedSpliceCommand {
			c.Probe("command_without_time_not_decoded")
			return true // documented as unsupported by the decoder
		}
		c.Fail("decode_inverse", "own_encoding_not_decoded:"+cm.Kind, err, "a signal")
		return false
	}
	var ddata []byte
	if !c.Call("SCTE35.Data(decoded)", func() { ddata = dsc.Data() }) {
		return false
	}
	if !bytes.Equal(ddata, held) {
		c.Fail("data_is_the_section", "decoded_data_differs_from_section", fmt.Sprintf("%x", ddata), fmt.Sprintf("%x", held))
		return false
	}
	if ambiguous {
		if sec.Stuffing == 0 {
			var re []byte
			if !c.Call("SCTE35.UpdateData(decoded)", func() { re = dsc.UpdateData() }) {
				return false
			}
			if !bytes.Equal(re, held) {
				c.Fail("reencode_identical", "reencoding_differs:"+c09Where(sec), fmt.Sprintf("%x", re), fmt.Sprintf("%x", held))
				return false
			}
		}
		return true
	}
	c.Probe("decoded_again")
	vis := c09VisibleCmd(cm)
	var dcmd scte35.SpliceCommand
	var dds []scte35.SegmentationDescriptor
	okc := c.Call("decoded getters", func() { dcmd = dsc.CommandInfo(); dds = dsc.Descriptors() })
	if !okc {
		return false
	}
	if int(dsc.Tier()) != sec.Tier {
		c.Fail("decode_inverse", "decoded:Tier", dsc.Tier(), sec.Tier)
		return false
	}
	if !c09CmdGetters(c, dcmd, vis, "decoded:"+vis.Kind, true) {
		return false
	}
	if vis.CarriesTime() && vis.Kind != "insert" || (vis.Kind == "insert" && vis.Program && vis.CarriesTime()) {
		wantPTS := (vis.Time.PTS + sec.Adjust) & c09Mask33
		if !dsc.HasPTS() || uint64(dsc.PTS()) != wantPTS {
			c.Fail("decode_inverse", "decoded:PTS", fmt.Sprint(dsc.HasPTS(), uint64(dsc.PTS())), fmt.Sprint(true, wantPTS))
			return false
		}
	}
	k := 0
	for _, it := range sec.Items {
		if it.Seg == nil {
			continue
		}
		if k >= len(dds) {
			c.Fail("decode_inverse", "decoded:descriptor_missing", len(dds), k+1)
			return false
		}
		vd := &c09Desc{m: c09VisibleDesc(*it.Seg), subKnown: true, upidKnown: true}
		if !c09DescGetters(c, dds[k], vd, "decoded:descriptor", true) {
			return false
		}
		k++
	}
	if k != len(dds) {
		c.Fail("decode_inverse", "decoded:descriptor_count", len(dds), k)
		return false
	}
	if sec.Stuffing == 0 {
		var re []byte
		if !c.Call("SCTE35.UpdateData(decoded)", func() { re = dsc.UpdateData() }) {
			return false
		}
		if !bytes.Equal(re, held) {
			c.Fail("reencode_identical", "reencoding_differs:"+c09Where(sec), fmt.Sprintf("%x", re), fmt.Sprintf("%x", held))
			return false
		}
		c.Probe("reencoded_identical")
	}
	return true
}

func c09Where(sec ref.Section) string {
	w := sec.Cmd.Kind
	if sec.Cmd.Kind == "insert" && sec.Cmd.Cancel {
		w += "_cancelled"
	}
	f := false
	for _, it := range sec.Items {
		if it.Seg == nil {
			f = true
		}
	}
	if f {
		w += "+foreign"
	}
	return w
}

// c09Region names the part of the section byte i lies in (for the signature).
func c09Region(sec ref.Section, i int) string {
	cmdLen := len(sec.Cmd.Bytes())
	switch {
	case i < 3:
		return "table_header"
	case i < 14:
		return "fixed_fields"
	case i < 14+cmdLen:
		r := "command:" + sec.Cmd.Kind
		if sec.Cmd.Kind == "insert" && sec.Cmd.Cancel {
			r += "_cancelled"
		}
		if sec.Cmd.Kind == "insert" && !sec.Cmd.Cancel && !sec.Cmd.Program {
			r += "_components"
		}
		if (sec.Cmd.Kind == "time" || sec.Cmd.Kind == "insert") && !sec.Cmd.Time.Has {
			r += "_no_time"
		}
		return r
	case i < 16+cmdLen:
		return "descriptor_loop_length"
	}
	p := 16 + cmdLen
	for _, it := range sec.Items {
		var l int
		if it.Seg != nil {
			l = len(it.Seg.Bytes())
		} else {
			l = len(it.Foreign)
		}
		if i < p+l {
			if it.Seg == nil {
				return "foreign_descriptor"
			}
			if it.Seg.Cancel {
				return "segmentation_descriptor_cancelled"
			}
			return "segmentation_descriptor"
		}
		p += l
	}
	return "tail"
}

func (c09) Shrink(script interface{}) []interface{} {
	s := script.(*C09Script)
	var out []interface{}
	cp := func() *C09Script {
		n := *s
		n.Ops = append([]C09Op(nil), s.Ops...)
		if s.Decode != nil {
			d := *s.Decode
			d.Items = append([]ref.SpliceItem(nil), s.Decode.Items...)
			n.Decode = &d
		}
		return &n
	}
	for _, keep := range core.DropChunks(len(s.Ops)) {
		n := cp()
		n.Ops = nil
		for _, i := range keep {
			n.Ops = append(n.Ops, s.Ops[i])
		}
		out = append(out, n)
	}
	if s.LegacyLen {
		n := cp()
		n.LegacyLen = false
		out = append(out, n)
	}
	if s.Decode != nil {
		uses := false
		for _, o := range s.Ops {
			if o.Obj == "cS" || (len(o.Obj) > 1 && o.Obj[:2] == "dS") {
				uses = true
			}
			for _, l := range o.List {
				if l == "cS" || (len(l) > 1 && l[:2] == "dS") {
					uses = true
				}
			}
		}
		if !uses {
			n := cp()
			n.Decode = nil
			out = append(out, n)
		}
		for i := len(s.Decode.Items) - 1; i >= 0; i-- {
			// only trailing items can go without renaming the decoded descriptors
			if i == len(s.Decode.Items)-1 {
				n := cp()
				n.Decode.Items = n.Decode.Items[:i]
				out = append(out, n)
			}
		}
		if s.Decode.Cmd.Kind != "null" {
			n := cp()
			n.Decode.Cmd = ref.Cmd{Kind: "null"}
			n.Decode.Adjust = 0
			out = append(out, n)
		}
		if s.Decode.Adjust != 0 {
			n := cp()
			n.Decode.Adjust = 0
			out = append(out, n)
		}
	}
	if len(s.Ops) <= 200 {
		for i, o := range s.Ops {
			if o.U > 1 {
				n := cp()
				n.Ops[i].U = 1
				out = append(out, n)
			}
			if len(o.Data) > 1 {
				n := cp()
				n.Ops[i].Data = o.Data[:1]
				out = append(out, n)
			}
			if len(o.MID) > 1 {
				n := cp()
				n.Ops[i].MID = o.MID[:1]
				out = append(out, n)
			}
			if len(o.Comps) > 1 {
				n := cp()
				n.Ops[i].Comps = o.Comps[:1]
				out = append(out, n)
			}
			if len(o.List) > 1 {
				n := cp()
				n.Ops[i].List = o.List[:1]
				out = append(out, n)
			}
		}
	}
	return out
}
