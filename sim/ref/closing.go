package ref

// The closing relation of SCTE-35 segmentation descriptors as the library documents it (the
// rule table in scte35/segmentationdescriptor.go at the pinned commit, transcribed by hand into
// four rule classes) and descriptor equality as property C19 words it. The tracker property
// C10 says that whatever is reported closed "is closable by the incoming descriptor under the
// closing rules (or equal to it, for an explicit close)": this is those rules, independent of
// the CanClose / Equal methods the tracker itself calls.

// SegFacts is what the relations look at.
type SegFacts struct {
	Type   int
	Event  uint32
	HasPTS bool
	PTS    uint64
	SegNum int
	SegExp int
	HasSub bool
	SubNum int
	SubExp int
}

type closeRule byte

const (
	ruleAlways  closeRule = 'T' // closes whenever the pair is in the table
	ruleEventID closeRule = 'E' // same segmentation_event_id
	ruleDiffPTS closeRule = 'D' // different signal time
	ruleLastSeg closeRule = 'P' // same event id and the incoming segment_num == segments_expected
)

var closingTable = map[int]map[int]closeRule{}

func rules(in int, r closeRule, outs ...int) {
	if closingTable[in] == nil {
		closingTable[in] = map[int]closeRule{}
	}
	for _, o := range outs {
		closingTable[in][o] = r
	}
}

func init() {
	rules(0x10, ruleAlways, 0x10, 0x14, 0x17, 0x19, 0x20, 0x22, 0x24, 0x26, 0x30, 0x34, 0x36, 0x3C, 0x40, 0x42, 0x44)
	rules(0x11, ruleEventID, 0x10, 0x14, 0x17, 0x19)
	rules(0x11, ruleAlways, 0x20, 0x22, 0x24, 0x26, 0x30, 0x34, 0x36, 0x3C, 0x40, 0x42, 0x44)
	rules(0x12, ruleEventID, 0x10, 0x14, 0x17, 0x19)
	rules(0x12, ruleAlways, 0x20, 0x30, 0x32, 0x34, 0x36)
	rules(0x13, ruleAlways, 0x20, 0x30, 0x32, 0x34, 0x36)
	rules(0x14, ruleAlways, 0x10, 0x17, 0x19, 0x20, 0x30, 0x32, 0x34, 0x36)
	rules(0x19, ruleAlways, 0x10, 0x14, 0x17, 0x19, 0x20, 0x30, 0x32, 0x34, 0x36)
	rules(0x20, ruleAlways, 0x20, 0x30, 0x32, 0x34, 0x36)
	rules(0x21, ruleEventID, 0x20)
	rules(0x21, ruleAlways, 0x30, 0x32, 0x34, 0x36)
	for _, start := range []int{0x22, 0x24, 0x26} {
		rules(start, ruleAlways, 0x20, 0x22, 0x24, 0x26, 0x30, 0x34, 0x36, 0x3C, 0x44)
		rules(start+1, ruleEventID, start)
		rules(start+1, ruleAlways, 0x30, 0x34, 0x36, 0x3C, 0x44)
	}
	rules(0x30, ruleAlways, 0x30, 0x32)
	rules(0x31, ruleEventID, 0x30)
	rules(0x32, ruleAlways, 0x30, 0x32)
	rules(0x33, ruleEventID, 0x32)
	rules(0x34, ruleDiffPTS, 0x30, 0x3C, 0x44)
	rules(0x35, ruleAlways, 0x30, 0x3C, 0x44)
	rules(0x35, ruleLastSeg, 0x34)
	rules(0x36, ruleDiffPTS, 0x30, 0x3C, 0x44)
	rules(0x37, ruleAlways, 0x30, 0x3C, 0x44)
	rules(0x37, ruleLastSeg, 0x36)
	rules(0x3C, ruleAlways, 0x30, 0x3C)
	rules(0x3D, ruleEventID, 0x3C)
	rules(0x40, ruleAlways, 0x40, 0x13)
	rules(0x41, ruleEventID, 0x40)
	rules(0x41, ruleAlways, 0x13)
	rules(0x42, ruleAlways, 0x20, 0x22, 0x24, 0x26, 0x30, 0x34, 0x36, 0x3C, 0x42, 0x44)
	rules(0x43, ruleAlways, 0x20, 0x22, 0x24, 0x26, 0x30, 0x34, 0x36, 0x3C, 0x44)
	rules(0x43, ruleEventID, 0x42)
	rules(0x44, ruleDiffPTS, 0x30, 0x3C)
	rules(0x44, ruleAlways, 0x44)
	rules(0x45, ruleAlways, 0x30, 0x3C)
	rules(0x45, ruleEventID, 0x44)
	rules(0x50, ruleAlways, 0x10, 0x14, 0x17, 0x19, 0x20, 0x30, 0x32, 0x34, 0x36, 0x40, 0x50, 0x13)
	rules(0x51, ruleAlways, 0x10, 0x14, 0x17, 0x19, 0x20, 0x30, 0x32, 0x34, 0x36, 0x40, 0x13)
	rules(0x51, ruleEventID, 0x50)
}

// CanClose: may the incoming descriptor close the open one?
func CanClose(in, out SegFacts) bool {
	r, ok := closingTable[in.Type][out.Type]
	if !ok {
		return false
	}
	switch r {
	case ruleAlways:
		return true
	case ruleEventID:
		return in.Event == out.Event
	case ruleDiffPTS:
		return in.PTS != out.PTS
	case ruleLastSeg:
		return in.Event == out.Event && in.SegNum == in.SegExp
	}
	return false
}

// SegEqual: same type, signal time, event id, segment and sub-segment numbers, both signals
// having a PTS.
func SegEqual(a, b SegFacts) bool {
	if a.Type != b.Type || !a.HasPTS || !b.HasPTS || a.PTS != b.PTS || a.Event != b.Event {
		return false
	}
	if a.SegNum != b.SegNum || a.SegExp != b.SegExp || a.HasSub != b.HasSub {
		return false
	}
	if a.HasSub && (a.SubNum != b.SubNum || a.SubExp != b.SubExp) {
		return false
	}
	return true
}
