package ref

import "verif/sim/core"

// Reference serialiser for splice_info_section (ANSI/SCTE 35: splice_null,
// time_signal, splice_insert; segmentation_descriptor and foreign descriptors).
// Written from the standard's syntax tables. Every Bytes function also returns
// a mask: mask[i] == false marks a byte (or a byte containing bits) whose value
// the logical model does not determine.

const pts33 = uint64(1)<<33 - 1

// SpliceTime is splice_time().
type SpliceTime struct {
	Has bool   `json:"has,omitempty"`
	PTS uint64 `json:"pts,omitempty"`
}

func (t SpliceTime) bytes() []byte {
	if !t.Has {
		return []byte{0x7F} // time_specified_flag 0, reserved 7 bits
	}
	p := t.PTS & pts33
	return []byte{0x80 | 0x7E | byte(p>>32), byte(p >> 24), byte(p >> 16), byte(p >> 8), byte(p)}
}

// InsertComp is one component of a splice_insert in component mode.
type InsertComp struct {
	Tag  int        `json:"tag"`
	Time SpliceTime `json:"time"`
}

// Cmd is a splice command.
type Cmd struct {
	Kind string `json:"kind"` // null | time | insert
	// time_signal and program-mode splice_insert
	Time SpliceTime `json:"time"`
	// splice_insert
	Event     uint32       `json:"event,omitempty"`
	Cancel    bool         `json:"cancel,omitempty"`
	Out       bool         `json:"out,omitempty"`
	Program   bool         `json:"program,omitempty"`
	HasDur    bool         `json:"has_dur,omitempty"`
	Immediate bool         `json:"immediate,omitempty"`
	Comps     []InsertComp `json:"comps,omitempty"`
	Auto      bool         `json:"auto,omitempty"`
	Dur       uint64       `json:"dur,omitempty"`
	UPI       int          `json:"upi,omitempty"`
	Avail     int          `json:"avail,omitempty"`
	Avails    int          `json:"avails,omitempty"`
}

// Type is splice_command_type.
func (c Cmd) Type() byte {
	switch c.Kind {
	case "time":
		return 0x06
	case "insert":
		return 0x05
	}
	return 0x00
}

// CarriesTime reports whether the encoded command contains a pts_time, i.e. whether
// pts_adjustment means anything for it.
func (c Cmd) CarriesTime() bool {
	switch c.Kind {
	case "time":
		return c.Time.Has
	case "insert":
		if c.Cancel || c.Immediate {
			return false
		}
		if c.Program {
			return c.Time.Has
		}
		for _, k := range c.Comps {
			if k.Time.Has {
				return true
			}
		}
	}
	return false
}

func (c Cmd) Bytes() []byte {
	switch c.Kind {
	case "time":
		return c.Time.bytes()
	case "insert":
		b := be32(c.Event)
		if c.Cancel {
			return append(b, 0xFF) // cancel 1 + reserved 7
		}
		b = append(b, 0x7F)
		fl := byte(0x0F)
		if c.Out {
			fl |= 0x80
		}
		if c.Program {
			fl |= 0x40
		}
		if c.HasDur {
			fl |= 0x20
		}
		if c.Immediate {
			fl |= 0x10
		}
		b = append(b, fl)
		if c.Program && !c.Immediate {
			b = append(b, c.Time.bytes()...)
		}
		if !c.Program {
			b = append(b, byte(len(c.Comps)))
			for _, k := range c.Comps {
				b = append(b, byte(k.Tag))
				if !c.Immediate {
					b = append(b, k.Time.bytes()...)
				}
			}
		}
		if c.HasDur {
			d := c.Dur & pts33
			x := byte(0x7E) | byte(d>>32)
			if c.Auto {
				x |= 0x80
			}
			b = append(b, x, byte(d>>24), byte(d>>16), byte(d>>8), byte(d))
		}
		return append(b, byte(c.UPI>>8), byte(c.UPI), byte(c.Avail), byte(c.Avails))
	}
	return nil
}

// UPID is one segmentation_upid.
type UPID struct {
	Type int      `json:"type"`
	Data core.Hex `json:"data,omitempty"`
}

// SegComp is one component of a segmentation_descriptor without program segmentation.
type SegComp struct {
	Tag int    `json:"tag"`
	Off uint64 `json:"off"`
}

// SegDesc is a segmentation_descriptor.
type SegDesc struct {
	Event         uint32    `json:"event"`
	Cancel        bool      `json:"cancel,omitempty"`
	Program       bool      `json:"program,omitempty"`
	HasDur        bool      `json:"has_dur,omitempty"`
	NotRestricted bool      `json:"not_restricted,omitempty"`
	Web           bool      `json:"web,omitempty"`
	NoBlackout    bool      `json:"no_blackout,omitempty"`
	Archive       bool      `json:"archive,omitempty"`
	Device        int       `json:"device,omitempty"`
	Comps         []SegComp `json:"comps,omitempty"`
	Dur           uint64    `json:"dur,omitempty"`
	UPIDType      int       `json:"upid_type,omitempty"`
	UPID          core.Hex  `json:"upid,omitempty"`
	MID           []UPID    `json:"mid,omitempty"` // used when UPIDType == 0x0D
	Type          int       `json:"type"`
	SegNum        int       `json:"seg_num,omitempty"`
	SegExp        int       `json:"seg_exp,omitempty"`
	HasSub        bool      `json:"has_sub,omitempty"`
	SubNum        int       `json:"sub_num,omitempty"`
	SubExp        int       `json:"sub_exp,omitempty"`
	// Tail: bytes after the last field, inside descriptor_length (not canonical: used to build
	// length-consistent but odd descriptors for the totality check)
	Tail core.Hex `json:"tail,omitempty"`
}

// SubSegments reports whether the sub-segment fields are part of the encoding.
func (d SegDesc) SubSegments() bool {
	return d.HasSub && (d.Type == 0x34 || d.Type == 0x36)
}

// UPIDBytes is the segmentation_upid() body.
func (d SegDesc) UPIDBytes() []byte {
	if d.UPIDType == 0x0D {
		var b []byte
		for _, u := range d.MID {
			b = append(b, byte(u.Type), byte(len(u.Data)))
			b = append(b, u.Data...)
		}
		return b
	}
	return append([]byte(nil), d.UPID...)
}

func (d SegDesc) Bytes() []byte {
	b := []byte{0x02, 0, 'C', 'U', 'E', 'I'}
	b = append(b, be32(d.Event)...)
	if d.Cancel {
		b = append(b, 0xFF)
	} else {
		b = append(b, 0x7F)
		fl := byte(0)
		if d.Program {
			fl |= 0x80
		}
		if d.HasDur {
			fl |= 0x40
		}
		if d.NotRestricted {
			fl |= 0x20 | 0x1F
		} else {
			if d.Web {
				fl |= 0x10
			}
			if d.NoBlackout {
				fl |= 0x08
			}
			if d.Archive {
				fl |= 0x04
			}
			fl |= byte(d.Device & 3)
		}
		b = append(b, fl)
		if !d.Program {
			b = append(b, byte(len(d.Comps)))
			for _, k := range d.Comps {
				o := k.Off & pts33
				b = append(b, byte(k.Tag), 0xFE|byte(o>>32), byte(o>>24), byte(o>>16), byte(o>>8), byte(o))
			}
		}
		if d.HasDur {
			v := d.Dur & (1<<40 - 1)
			b = append(b, byte(v>>32), byte(v>>24), byte(v>>16), byte(v>>8), byte(v))
		}
		u := d.UPIDBytes()
		b = append(b, byte(d.UPIDType), byte(len(u)))
		b = append(b, u...)
		b = append(b, byte(d.Type), byte(d.SegNum), byte(d.SegExp))
		if d.SubSegments() {
			b = append(b, byte(d.SubNum), byte(d.SubExp))
		}
		b = append(b, d.Tail...)
	}
	b[1] = byte(len(b) - 2)
	return b
}

// SpliceItem is one entry of the descriptor loop: a segmentation descriptor or a
// foreign descriptor kept as raw tag/length/body.
type SpliceItem struct {
	Seg     *SegDesc `json:"seg,omitempty"`
	Foreign core.Hex `json:"foreign,omitempty"`
}

// Section is a logical splice_info_section.
type Section struct {
	Adjust   uint64       `json:"adjust,omitempty"` // pts_adjustment
	CW       int          `json:"cw,omitempty"`
	Tier     int          `json:"tier"`
	Cmd      Cmd          `json:"cmd"`
	Items    []SpliceItem `json:"items,omitempty"`
	Stuffing int          `json:"stuffing,omitempty"`
	// EncAlg: the 6 encryption_algorithm bits (encrypted_packet stays 0: a clear section)
	EncAlg int `json:"enc_alg,omitempty"`
}

// Bytes serialises the section. mask[i] is false for the bytes of pts_adjustment when the
// command carries no time (the field then means nothing) and for alignment stuffing values.
func (s Section) Bytes() (data []byte, mask []bool) {
	cmd := s.Cmd.Bytes()
	var loop []byte
	for _, it := range s.Items {
		if it.Seg != nil {
			loop = append(loop, it.Seg.Bytes()...)
		} else {
			loop = append(loop, it.Foreign...)
		}
	}
	secLen := 11 + len(cmd) + 2 + len(loop) + s.Stuffing + 4
	b := []byte{0xFC, 0x30 | byte(secLen>>8)&0x0F, byte(secLen)}
	adj := s.Adjust & pts33
	b = append(b, 0x00, byte(s.EncAlg&0x3F)<<1|byte(adj>>32), byte(adj>>24), byte(adj>>16), byte(adj>>8), byte(adj))
	b = append(b, byte(s.CW), byte(s.Tier>>4), byte(s.Tier<<4)|byte(len(cmd)>>8)&0x0F, byte(len(cmd)), s.Cmd.Type())
	b = append(b, cmd...)
	b = append(b, byte(len(loop)>>8), byte(len(loop)))
	b = append(b, loop...)
	stuffAt := len(b)
	b = append(b, make([]byte, s.Stuffing)...)
	crcAt := len(b)
	b = append(b, 0, 0, 0, 0)
	mask = make([]bool, len(b))
	for i := range mask {
		mask[i] = true
	}
	if !s.Cmd.CarriesTime() {
		for i := 4; i <= 8; i++ {
			mask[i] = false
		}
	}
	for i := stuffAt; i < crcAt; i++ {
		mask[i] = false
	}
	if !s.Cmd.CarriesTime() || s.Stuffing > 0 {
		// the CRC covers bytes the model does not determine: it is checked separately
		// (CRC over the whole section must be zero)
		for i := crcAt; i < len(b); i++ {
			mask[i] = false
		}
	}
	copy(b[crcAt:], be32(CRC32(b[:crcAt])))
	return b, mask
}
