// Package ref holds the reference models the oracles compare against. They
// are written from ISO/IEC 13818-1 and SCTE 35, not from the implementation,
// and import no constant from gots.
package ref

import "verif/sim/core"

const (
	PacketSize = 188
	SyncByte   = 0x47
)

var crcTable [256]uint32

func init() {
	for i := 0; i < 256; i++ {
		c := uint32(i) << 24
		for k := 0; k < 8; k++ {
			if c&0x80000000 != 0 {
				c = c<<1 ^ 0x04C11DB7
			} else {
				c <<= 1
			}
		}
		crcTable[i] = c
	}
}

// CRC32 is CRC-32/MPEG-2: poly 0x04C11DB7, init 0xFFFFFFFF, no reflection, no final xor.
func CRC32(b []byte) uint32 {
	c := uint32(0xFFFFFFFF)
	for _, x := range b {
		c = c<<8 ^ crcTable[byte(c>>24)^x]
	}
	return c
}

func be32(v uint32) []byte { return []byte{byte(v >> 24), byte(v >> 16), byte(v >> 8), byte(v)} }

// Desc is one descriptor: tag, length, body.
type Desc struct {
	Tag  int      `json:"tag"`
	Body core.Hex `json:"body"`
}

func (d Desc) Bytes() []byte {
	return append([]byte{byte(d.Tag), byte(len(d.Body))}, d.Body...)
}

func descLoop(ds []Desc) []byte {
	var b []byte
	for _, d := range ds {
		b = append(b, d.Bytes()...)
	}
	return b
}

// ES is one elementary stream entry of a PMT.
type ES struct {
	Type  int    `json:"type"`
	PID   int    `json:"pid"`
	Descs []Desc `json:"descs,omitempty"`
}

func (e ES) Bytes() []byte {
	dl := descLoop(e.Descs)
	b := []byte{byte(e.Type), 0xE0 | byte(e.PID>>8)&0x1f, byte(e.PID), 0xF0 | byte(len(dl)>>8)&0x0f, byte(len(dl))}
	return append(b, dl...)
}

// PMTSpec is an abstract program map section.
type PMTSpec struct {
	Program     int    `json:"program"`
	Version     int    `json:"version"`
	CurrentNext bool   `json:"current_next"`
	PCRPID      int    `json:"pcr_pid"`
	ProgDescs   []Desc `json:"prog_descs,omitempty"`
	Streams     []ES   `json:"streams"`
}

// Section serialises the spec as a TS_program_map_section (ISO 13818-1 2.4.4.8).
func (p PMTSpec) Section() []byte {
	pd := descLoop(p.ProgDescs)
	var body []byte
	body = append(body, byte(p.Program>>8), byte(p.Program))
	cn := byte(0)
	if p.CurrentNext {
		cn = 1
	}
	body = append(body, 0xC0|byte(p.Version&0x1f)<<1|cn)
	body = append(body, 0x00, 0x00) // section_number, last_section_number
	body = append(body, 0xE0|byte(p.PCRPID>>8)&0x1f, byte(p.PCRPID))
	body = append(body, 0xF0|byte(len(pd)>>8)&0x0f, byte(len(pd)))
	body = append(body, pd...)
	for _, e := range p.Streams {
		body = append(body, e.Bytes()...)
	}
	sl := len(body) + 4
	sec := []byte{0x02, 0xB0 | byte(sl>>8)&0x0f, byte(sl)}
	sec = append(sec, body...)
	return append(sec, be32(CRC32(sec))...)
}

// SectionLength is the section_length field value of the serialised spec.
func (p PMTSpec) SectionLength() int { return len(p.Section()) - 3 }

// Restrict keeps only the streams whose PID is in pids (original order).
func (p PMTSpec) Restrict(pids []int) PMTSpec {
	q := p
	q.Streams = nil
	for _, e := range p.Streams {
		for _, x := range pids {
			if x == e.PID {
				q.Streams = append(q.Streams, e)
				break
			}
		}
	}
	return q
}

// ForeignSection is a complete private section with a table_id that is
// neither a PMT (0x02) nor stuffing (0xFF).
type ForeignSection struct {
	TableID int      `json:"table_id"`
	Syntax  bool     `json:"syntax"`
	Private bool     `json:"private"`
	Body    core.Hex `json:"body"`
}

func (f ForeignSection) Section() []byte {
	sl := len(f.Body) + 4
	b1 := byte(0x30) | byte(sl>>8)&0x0f
	if f.Syntax {
		b1 |= 0x80
	}
	if f.Private {
		b1 |= 0x40
	}
	sec := []byte{byte(f.TableID), b1, byte(sl)}
	sec = append(sec, f.Body...)
	return append(sec, be32(CRC32(sec))...)
}

// PATEntry is one 4-byte program association entry.
type PATEntry struct {
	Program int `json:"program"`
	PID     int `json:"pid"`
}

// PATSpec is an abstract program association section.
type PATSpec struct {
	TSID     int        `json:"tsid"`
	Version  int        `json:"version"`
	Entries  []PATEntry `json:"entries"`
	Reserved int        `json:"reserved"` // value of the 3 reserved bits in every entry (receivers must ignore them)
	// HdrFlip: bits of the version byte to flip (0x01 clears current_next_indicator, 0xC0 the
	// two reserved bits): header fields that take no part in what the table says
	HdrFlip int `json:"hdr_flip,omitempty"`
}

func (p PATSpec) Section() []byte {
	var body []byte
	body = append(body, byte(p.TSID>>8), byte(p.TSID))
	body = append(body, (0xC0|byte(p.Version&0x1f)<<1|1)^byte(p.HdrFlip&0xC1))
	body = append(body, 0x00, 0x00)
	for _, e := range p.Entries {
		body = append(body, byte(e.Program>>8), byte(e.Program), byte(p.Reserved&7)<<5|byte(e.PID>>8)&0x1f, byte(e.PID))
	}
	sl := len(body) + 4
	sec := []byte{0x00, 0xB0 | byte(sl>>8)&0x0f, byte(sl)}
	sec = append(sec, body...)
	return append(sec, be32(CRC32(sec))...)
}

// Payload builds pointer_field + 0xFF filler + sections + trailing 0xFF.
func Payload(pointer int, sections [][]byte, trailing int) []byte {
	b := []byte{byte(pointer)}
	for i := 0; i < pointer; i++ {
		b = append(b, 0xFF)
	}
	for _, s := range sections {
		b = append(b, s...)
	}
	for i := 0; i < trailing; i++ {
		b = append(b, 0xFF)
	}
	return b
}
