#!/usr/bin/env python3
"""Regenerates MANIFEST.json from the table below (keeps it valid and in one place)."""
import json, subprocess

CLAIMED = {
 "C03": ("C03 adaptation field edit histories", "§4 C03",
   "Seeded search over initial well-formed packets (adaptation_field_length 1..183, any legal subset of optional fields) x scripted histories of <=40 setter calls (flags, presence toggles incl. repeats, timestamp/countdown values, private data/extension sized to 'exactly fills'/'one too many', values for absent fields, SetAdaptationField from another packet) against a logical adaptation-field model: 188 bytes compared with the ISO serialisation after every call, all getters in both API styles, refusals must be atomic and calls that fit must succeed (capacity exhaustion is the injected fault); complete sweep of all histories of length <=4 (quick) / <=5 (thorough) over a 12-letter alphabet x 9 field lengths. Sampling beyond the sweep. Thin simulated dimension (operation order and refusal atomicity only).",
   "Trusts the reference serialiser; method getters for private data/extension accepted in either shape; unset timestamp bytes are wildcards."),
 "C05": ("C05 decoders are total", "§4 C05",
   "Seeded search over well-formed multi-PID streams (PAT, PMT, PES, EBP, SCTE-35 of all supported shapes, null) damaged by 0..4 scripted faults at three layers (message: length/flag fields flipped, set to 0/1/max, +-k, uniform flips, truncation; packet: drop/dup/swap, header and adaptation-field bit flips; stream: truncation at any byte, byte insert/delete, garbage prefix, bit flips) and read through fragmenting/failing readers, driven through a pipeline that mirrors cli/parsefile.go and extends it to every decoding entry point, the modifiers, the accumulators, the tracker and the writer adapter, plus direct parser calls on damaged, truncated, empty and over-long inputs; each library call is guarded (panic), journaled to a crash-safe page and watched (hang > 10 s, live heap > 1 GiB, per-call allocation bound) in worker processes, fatal failures are confirmed and minimised in fresh processes; read-only calls must leave caller buffers untouched; objects returned without error are queried, printed and re-encoded. Complete sweep for 4 fixed streams of every single-bit flip / 0 / 1 / 0xFF of every marked length or flag field and of stream truncation at every byte. Sampling beyond the sweep.",
   "Decides totality near well-formed streams (the part of the quantifier the statement singles out), not on arbitrary byte strings; the wall clock enters only through the hang watchdog (confirmed by replay); allocation accounting is exact to within ~2 MiB against a 32 MiB+ bound."),
 "C06": ("C06 PMT decoding vs packetisation", "§4 C06",
   "Seeded search over abstract PMTs x pointer_field x foreign sections before x trailing stuffing x per-packet split sizes and stuffing styles x multiplexer schedule among foreign PIDs (incl. another PMT on another PID) x every Read outcome of a scripted reader x truncation; ReadPMT and NewPMT compared with the abstract PMT, the completion predicate evaluated on every prefix of the payload (sender crash points), CRC and header accessors checked; complete sweep of first-packet size 1..184 x pointer 0..20 x 3 stuffing styles for 3 fixed PMTs. Sampling, not proof.",
   "Trusts the reference serialiser/CRC written from ISO 13818-1; opaque descriptor bodies are compared by tag only (no raw accessor in the API); one recorded known finding (zero-stream PMT through ReadPMT)."),
 "C07": ("C07 PAT decoding over carriers", "§4 C07",
   "Seeded search over abstract PATs (0..42 entries, network entry, reserved bits, PIDs > 255) x PAT packet adaptation-field style x position chosen by a scripted multiplexer among foreign packets x later different PAT x absent PAT x end of stream inside the PAT packet x every Read outcome of a scripted reader; payload, packet and stream carriers decoded in the same run and compared with the abstract PAT, IsPMT probed. Sampling, not proof; the simulated dimension is thin (stream position, fragmentation, EOF/error placement, carrier equivalence).",
   "Trusts the reference serialiser; pointer_field 0 and distinct program numbers only."),
 "C09": ("C09 SCTE-35 encoder under setter histories", "§4 C09",
   "Seeded search over caller histories (<=40 steps, up to 150 in the thorough tier) on a graph of mutable objects - one signal (created, or decoded from a reference-serialised canonical section), a pool of null/time_signal/splice_insert command objects and three segmentation descriptors - calling every setter in any order (flags set and cleared, values at and beyond field widths, UPID/multiple-UPID changes incl. documented no-effect calls, component lists), attaching/replacing commands and descriptor lists, encoding at arbitrary points. After every step every getter of every object is compared with a logical model and Data() with the last encoding; every encoding is compared byte for byte with a reference serialiser written from SCTE 35 (CRC zero, idempotent, part encodings), decoded again (every visible field), and the decoded signal re-encoded (identical). Quick: 2.0e6 histories; thorough: 2.0e8.",
   "Histories only - there is no reader, sink or clock in this property; the 'faults' are caller behaviours (values beyond the field width, documented no-effect calls). pts_adjustment is compared only when the command carries a time; ambiguous states after a lone SetUPIDType / SetTypeID are not compared; time-less time_signal / timed splice_insert are encoded but not decoded (library documents them unsupported)."),
 "C10": ("C10 SCTE-35 state tracker", "§4 C10",
   "Discrete-event simulation on a 90 kHz clock: encoder workloads (generated broadcast day with nesting, breakaway/resumption, stream-switch events, PTS wrap; adversarial alphabet) -> optional real transport (packetiser -> accumulator -> decoder) -> scripted channel (drop, duplicate, same-object repeat, late duplicate beyond the ring, reorder) -> tracker, with duration timers calling Close early/late/twice/after close and explicit/unknown Closes; an invariant monitor over public results only is evaluated after every call; complete sweep of all histories of length <=4 over a 9-letter alphabet. Sampling beyond the sweep.",
   "Closed descriptors are judged against a hand transcription of the documented closing-rule table and of descriptor equality (ref/closing.go), not against the library's own CanClose/Equal; trusts that transcription and the monitor's reading of 'open' = Open() + pending breakaways; completeness of Open() is not demanded."),
 "C14": ("C14 PMT filtering as relay stage", "§4 C14",
   "Seeded search over abstract PMTs x packetisation/mux/fragmentation into the real accumulator x PID request shapes (subset, order, absent, duplicated, PAT/PMT PID, empty) -> FilterPMTPacketsToPids -> comparison with the reference serialisation of the restricted PMT (headers, pointer, section_length, CRC, padding), error contract, inputs untouched -> re-mux -> ReadPMT over a second faulty reader; RemoveElementaryStreams/Pids/PIDExists on the decoded PMT. Sampling, not proof.",
   "Trusts the reference serialiser/CRC; elementary PIDs distinct; the overlap of the two error clauses is accepted either way."),
 "C17": ("C17 payload accumulator", "§4 C17",
   "Seeded search over caller histories (WritePacket of 4 packet classes with/without unit start, Reset, reuse of the caller's buffer, scribbling on returned slices) x predicate kinds (threshold, never, always, error window, flapping) against a 3-state reference model compared after every operation, with a fresh accumulator in lock-step after every Reset; complete sweep of all histories of length <=6 over a 7-letter alphabet. Sampling beyond the sweep.",
   "Trusts the reference model written from the statement; payload-less packet listing accepted either way; PUSI on payload-less packets not generated."),
 "C16": ("C16 sync search", "§4 C16",
   "Seeded search over scripted byte streams (false sync bytes of every kind before the true header, headers cut by end of stream, header straddling a bufio refill) x scanner kind x bufio size x every Read outcome of a scripted reader (fragmentation, zero reads, data+EOF, transient/hard errors), with a complete sweep of false-sync kind x bufio size 16..64 x header position 0..80 under one-byte reads. Oracle: reference scan + position of the reader afterwards. Sampling, not proof.",
   "Trusts the harness's reference scan (written from the statement), stdlib bufio, and the narrow relaxation after an injected reader error."),
 "C18": ("C18 writer adapters", "§4 C18",
   "Seeded search over reader fragmentation x failing/short-counting packet sink x partial tail x adapter kind (IOWriter, IOWriteCloser, PacketWriterFunc; Write, ReadFrom, io.Copy), every delivered packet attributable to one uniquely stamped source packet; complete sweep of all compositions of two packets into <=3 read fragments x EOF style. Sampling, not proof.",
   "Trusts SimReader/SimSink and stdlib io.Copy; short-counting sinks are outside the statement (only integrity/order checked)."),
}

NA = {
 "C01": "header getters/setters are pure bit operations on one 188-byte array: no reader, sink, schedule, clock, fault or order of calls for a simulator to own (exhaustive enumeration/SMT is the fitting technique, not simulation)",
 "C02": "payload/header partition and SetPayload are single calls on one packet; creation helpers are pure constructors: nothing to schedule or fault",
 "C04": "PCR/PTS codecs are pure integer<->bytes functions; the end-to-end clauses are set-then-get pairs with no intervening state",
 "C08": "NewSCTE35 is a pure function of one byte string",
 "C11": "NewPESHeader/PESHeader/AlignedPUSI are pure functions of one byte string / packet",
 "C12": "EBP decode/encode and NTP time conversion are pure (time is an argument; the only clock read, EBPSuccessReadTime, is outside the property)",
 "C13": "ComputeCRC is a pure function of one byte string",
 "C15": "PTS comparison/arithmetic are pure predicates on two integers",
 "C19": "CanClose/IsIn/IsOut/Equal are finite pure relations; the property asks for exhaustive enumeration of a finite abstraction, which is model checking, not seeded simulation",
 "C20": "stream-type table and descriptor decoders are finite tables and pure functions",
}

def main():
    checks = []
    for pid in sorted(CLAIMED):
        title, ref, text, note = CLAIMED[pid]
        checks.append({
            "property_id": pid,
            "quick_cmd": f"/verif/run.sh {pid} quick",
            "thorough_cmd": f"/verif/run.sh {pid} thorough",
            "evidence_file": f"/verif/evidence/{pid}.json",
            "replay_cmd_template": "/verif/bin/gotsim replay {path}",
            "engine": "gotsim",
            "level_claimed": {"category": "exploration", "text": text, "design_ref": ref},
            "level_note": note,
            "technique": "deterministic simulation with fault injection (seed -> explicit script of schedule and faults -> pure executor over real gots code -> reference-model oracle -> minimised replay)",
        })
    m = {
        "version": 1,
        "setup_cmd": "cd /verif/sim && export GOFLAGS=-mod=mod GOPROXY=off GOSUMDB=off GOTOOLCHAIN=local && mkdir -p /verif/bin /verif/evidence /verif/replays && go build -o /verif/bin/gotsim . && /verif/bin/gotsim selftest --n 60",
        "hooks": {
            "guard": "verif",
            "enable": "no hooks: every seam the simulator needs (io.Reader, packet.PeekScanner, packet.PacketWriter, accumulator predicate, State API) is already an interface or argument; checks build the unmodified package tree",
            "baseline_off_cmd": "cd /repo && go test -vet=off -count=1 ./...",
            "source_commits": [],
            "add_only": True,
        },
        "engines": [{
            "name": "gotsim",
            "path": "/verif/sim",
            "serves_properties": sorted(CLAIMED),
            "kind_free_text": "single Go binary: seeded generator -> JSON script -> deterministic executor (real gots code between simulated reader, sink, packetiser, mux, channel, clock, caller) -> oracle -> minimiser -> replay file; worker processes with crash-safe journal and watchdog",
        }],
        "checks": checks,
        "not_applicable": [{"property_id": k, "reason": v} for k, v in sorted(NA.items()) if k not in CLAIMED],
        "notes": "Besides the per-run dimensions named in each check's text, every check also exercises (since the seeded-change waves of DESIGN.md section 14): results handed out earlier must not change under later calls; callers overwrite what they were given; the same adapter/accumulator/tracker/buffer is re-used after refusals and errors; other instances are alive in the same process; rare stress runs reach sizes where 8/16/32-bit counters wrap (C05, C07, C10, C16, C17, C18). Exit codes of every command: 0 held on everything explored (KNOWN-FINDING lines possible), 1 with VIOLATION property=<id> replay=<path>, 2 infrastructure (build, self-test, watchdog, vacuous batch). VERIF_SEED overrides the base seed; VERIF_RUNS / VERIF_WORKERS / VERIF_MAXWALL_S tune a batch. Genuine defects found and repaired are listed in /verif/known_findings.json.",
    }
    json.dump(m, open("/verif/MANIFEST.json", "w"), indent=1)
    print("wrote MANIFEST.json with", len(checks), "checks,", len(m["not_applicable"]), "n/a")

main()
