#!/usr/bin/env python3
"""Regenerates MANIFEST.json from the table below (keeps it valid and in one place)."""
import json, subprocess

CLAIMED = {
 "C16": ("C16 sync search", "§4 C16",
   "Seeded search over scripted byte streams (false sync bytes of every kind before the true header, headers cut by end of stream, header straddling a bufio refill) x scanner kind x bufio size x every Read outcome of a scripted reader (fragmentation, zero reads, data+EOF, transient/hard errors), with a complete sweep of false-sync kind x bufio size 16..64 x header position 0..80 under one-byte reads. Oracle: reference scan + position of the reader afterwards. Sampling, not proof.",
   "Trusts the harness's reference scan (written from the statement), stdlib bufio, and the narrow relaxation after an injected reader error."),
 "C18": ("C18 writer adapters", "§4 C18",
   "Seeded search over reader fragmentation x failing/short-counting packet sink x partial tail x adapter kind (IOWriter, IOWriteCloser, PacketWriterFunc; Write, ReadFrom, io.Copy), every delivered packet attributable to one uniquely stamped source packet; complete sweep of all compositions of two packets into <=3 read fragments x EOF style. Sampling, not proof.",
   "Trusts SimReader/SimSink and stdlib io.Copy; short-counting sinks are outside the statement (only integrity/order checked)."),
}

NA = {
 "C01": "header getters/setters are pure bit operations on one 188-byte array: no reader, sink, schedule, clock, fault or order of calls for a simulator to own (exhaustive enumeration/SMT is the fitting technique, not simulation)",
 "C02": "payload/header partition and SetPayload are single calls on one packet; creation helpers are pure constructors: nothing to schedule or fault",
 "C04": "PCR/PTS codecs are pure integer<->bytes functions; the end-to-end clauses are set-then-get pairs with no intervening state",
 "C08": "NewSCTE35 is a pure function of one byte string",
 "C09": "encoding is a pure function of the field assignment; setters are independent last-write-wins assignments that never fail, so a setter history has no order dependence or refusal to simulate",
 "C11": "NewPESHeader/PESHeader/AlignedPUSI are pure functions of one byte string / packet",
 "C12": "EBP decode/encode and NTP time conversion are pure (time is an argument; the only clock read, EBPSuccessReadTime, is outside the property)",
 "C13": "ComputeCRC is a pure function of one byte string",
 "C15": "PTS comparison/arithmetic are pure predicates on two integers",
 "C19": "CanClose/IsIn/IsOut/Equal are finite pure relations; the property asks for exhaustive enumeration of a finite abstraction, which is model checking, not seeded simulation",
 "C20": "stream-type table and descriptor decoders are finite tables and pure functions",
}

def main():
    checks = []
    for pid in sorted(CLAIMED):
        title, ref, text, note = CLAIMED[pid]
        checks.append({
            "property_id": pid,
            "quick_cmd": f"/verif/run.sh {pid} quick",
            "thorough_cmd": f"/verif/run.sh {pid} thorough",
            "evidence_file": f"/verif/evidence/{pid}.json",
            "replay_cmd_template": "/verif/bin/gotsim replay {path}",
            "engine": "gotsim",
            "level_claimed": {"category": "exploration", "text": text, "design_ref": ref},
            "level_note": note,
            "technique": "deterministic simulation with fault injection (seed -> explicit script of schedule and faults -> pure executor over real gots code -> reference-model oracle -> minimised replay)",
        })
    m = {
        "version": 1,
        "setup_cmd": "cd /verif/sim && export GOFLAGS=-mod=mod GOPROXY=off GOSUMDB=off GOTOOLCHAIN=local && mkdir -p /verif/bin /verif/evidence /verif/replays && go build -o /verif/bin/gotsim . && /verif/bin/gotsim selftest --n 60",
        "hooks": {
            "guard": "verif",
            "enable": "no hooks: every seam the simulator needs (io.Reader, packet.PeekScanner, packet.PacketWriter, accumulator predicate, State API) is already an interface or argument; checks build the unmodified package tree",
            "baseline_off_cmd": "cd /repo && go test -vet=off -count=1 ./...",
            "source_commits": [],
            "add_only": True,
        },
        "engines": [{
            "name": "gotsim",
            "path": "/verif/sim",
            "serves_properties": sorted(CLAIMED),
            "kind_free_text": "single Go binary: seeded generator -> JSON script -> deterministic executor (real gots code between simulated reader, sink, packetiser, mux, channel, clock, caller) -> oracle -> minimiser -> replay file; worker processes with crash-safe journal and watchdog",
        }],
        "checks": checks,
        "not_applicable": [{"property_id": k, "reason": v} for k, v in sorted(NA.items()) if k not in CLAIMED],
        "notes": "Exit codes of every command: 0 held on everything explored (KNOWN-FINDING lines possible), 1 with VIOLATION property=<id> replay=<path>, 2 infrastructure (build, self-test, watchdog, vacuous batch). VERIF_SEED overrides the base seed; VERIF_RUNS / VERIF_WORKERS / VERIF_MAXWALL_S tune a batch. Genuine defects found and repaired are listed in /verif/known_findings.json.",
    }
    json.dump(m, open("/verif/MANIFEST.json", "w"), indent=1)
    print("wrote MANIFEST.json with", len(checks), "checks,", len(m["not_applicable"]), "n/a")

main()
